// Package simmeta is the simulated metadata store: an atomic, durable-on-return
// implementation of the data held by types.MetaStore. Like metadb it round
// trips PersistentState through JSON so time values behave identically.
package simmeta

import (
	"encoding/json"

	"github.com/hashicorp/raft-wal/types"
)

// Store is the durable content. It survives crashes as is: every mutation is
// atomic and durable when it returns (bbolt's own crash safety is trusted).
type Store struct {
	Raw    []byte // JSON of PersistentState, nil = never committed
	Stable []kv   // association list, not a map (see simdisk.dirMap)
	// Commits counts CommitState calls applied.
	Commits int
}

func New() *Store { return &Store{} }

type kv struct {
	k string
	v []byte
}

func (s *Store) Load() (types.PersistentState, error) {
	var st types.PersistentState
	if s.Raw == nil {
		return st, nil
	}
	if err := json.Unmarshal(s.Raw, &st); err != nil {
		return st, types.ErrCorrupt
	}
	return st, nil
}

func (s *Store) Commit(st types.PersistentState) error {
	raw, err := json.Marshal(st)
	if err != nil {
		return err
	}
	// private copy: the bytes json.Marshal wrote are known to the race
	// detector as written by the committing goroutine; oracles read Raw from
	// other tasks
	s.Raw = append(make([]byte, 0, len(raw)), raw...)
	s.Commits++
	return nil
}

func (s *Store) Get(key []byte) []byte {
	for _, e := range s.Stable {
		if e.k == string(key) {
			return append([]byte{}, e.v...)
		}
	}
	return nil
}

func (s *Store) Set(key, val []byte) {
	for i, e := range s.Stable {
		if e.k == string(key) {
			if val == nil {
				for j := i; j+1 < len(s.Stable); j++ {
					s.Stable[j] = s.Stable[j+1]
				}
				s.Stable[len(s.Stable)-1] = kv{}
				s.Stable = s.Stable[:len(s.Stable)-1]
			} else {
				s.Stable[i].v = append([]byte{}, val...)
			}
			return
		}
	}
	if val != nil {
		s.Stable = append(s.Stable, kv{string(key), append([]byte{}, val...)})
	}
}
