// Package simmeta is the simulated metadata store: an atomic, durable-on-return
// implementation of the data held by types.MetaStore. Like metadb it round
// trips PersistentState through JSON so time values behave identically.
package simmeta

import (
	"encoding/json"

	"github.com/hashicorp/raft-wal/types"
)

// Store is the durable content. It survives crashes as is: every mutation is
// atomic and durable when it returns (bbolt's own crash safety is trusted).
type Store struct {
	Raw    []byte // JSON of PersistentState, nil = never committed
	Stable map[string][]byte
	// Commits counts CommitState calls applied.
	Commits int
}

func New() *Store { return &Store{Stable: map[string][]byte{}} }

func (s *Store) Load() (types.PersistentState, error) {
	var st types.PersistentState
	if s.Raw == nil {
		return st, nil
	}
	if err := json.Unmarshal(s.Raw, &st); err != nil {
		return st, types.ErrCorrupt
	}
	return st, nil
}

func (s *Store) Commit(st types.PersistentState) error {
	raw, err := json.Marshal(st)
	if err != nil {
		return err
	}
	s.Raw = raw
	s.Commits++
	return nil
}

func (s *Store) Get(key []byte) []byte {
	v, ok := s.Stable[string(key)]
	if !ok {
		return nil
	}
	return append([]byte{}, v...)
}

func (s *Store) Set(key, val []byte) {
	if val == nil {
		delete(s.Stable, string(key))
		return
	}
	s.Stable[string(key)] = append([]byte{}, val...)
}
