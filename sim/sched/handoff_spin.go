//go:build edgefree

package sched

import (
	"runtime"
	"time"
	"unsafe"
)

// Edge-free hand-off for race-detector builds. A channel or mutex between
// tasks would make every pair of tasks happens-before ordered and hide every
// data race of the code under test from the detector. Here tasks and the
// engine hand over through plain memory words that are polled; the package is
// compiled WITHOUT race instrumentation (-gcflags='verif/sim/...=-race=false'),
// so the detector sees neither these accesses nor any synchronisation between
// tasks other than what the code under test does itself. Execution is still
// strictly serialised: a task runs only after the engine flipped its wake word
// and the engine proceeds only after the running task posted an event.
// (amd64 is TSO and every poll iteration makes a function call, so plain loads
// and stores are sufficient.)

// EdgeFree reports whether this build uses the edge-free hand-off.
const EdgeFree = true

type syncState struct {
	scan int
}

type taskSync struct {
	evq      [8]evKind
	postSeq  uint32 // written by the task
	seenSeq  uint32 // written by the engine
	wakeSeq  uint32 // written by the engine
	wakeSeen uint32 // written by the task
	die      bool
}

func (s *Sim) initSync() {}

func (s *Sim) lock()    {}
func (s *Sim) unlock()  {}
func (s *Sim) mlock()   {}
func (s *Sim) munlock() {}

func (s *Sim) regGoid(g uint64, t *Task) { t.goid = g }

func (s *Sim) lookup(g uint64) *Task {
	all := s.All
	for _, t := range all {
		if t != nil && t.goid == g && !t.placeholder {
			return t
		}
	}
	return nil
}

func (s *Sim) initTask(t *Task) {}

func backoff(i int) {
	if i < 5000 {
		runtime.Gosched()
		return
	}
	time.Sleep(20 * time.Microsecond)
}

// doneSync carries the one deliberate edge: a finished (or crashed) task
// happens-before the engine that collected it, so the engine may read what the
// task left behind. (runtime.Race* exist only in -race builds, which is the
// only way this file is built.)
var doneSync int64

func (s *Sim) post(ev event) {
	t := ev.t
	if ev.kind == evDone || ev.kind == evCrash {
		runtime.RaceReleaseMerge(unsafe.Pointer(&doneSync))
	}
	t.evq[t.postSeq%8] = ev.kind
	t.postSeq++
}

func (s *Sim) await(t *Task) bool {
	for i := 0; t.wakeSeq == t.wakeSeen; i++ {
		backoff(i)
	}
	t.wakeSeen++
	return t.die
}

func (s *Sim) resume(t *Task, die bool) {
	t.die = die
	t.wakeSeq++
}

func (s *Sim) next(d time.Duration) (event, bool) {
	start := time.Now()
	for i := 0; ; i++ {
		all := s.All
		for _, t := range all {
			if t != nil && t.seenSeq != t.postSeq {
				k := t.evq[t.seenSeq%8]
				t.seenSeq++
				if k == evDone || k == evCrash {
					runtime.RaceAcquire(unsafe.Pointer(&doneSync))
				}
				return event{k, t}, true
			}
		}
		backoff(i)
		if i%1024 == 1023 && time.Since(start) > d {
			return event{}, false
		}
	}
}

// joined: a task that waited for the others to finish is ordered after the
// finished ones (a join, as any program must do to know a goroutine is done);
// tasks that are merely parked released nothing.
func (s *Sim) joined() { runtime.RaceAcquire(unsafe.Pointer(&doneSync)) }
