//go:build !edgefree

package sched

import (
	"sync"
	"time"
)

// Channel/mutex hand-off: the default. Every switch between tasks goes through
// a channel, which also makes every pair of tasks happens-before ordered.

// EdgeFree reports whether this build uses the edge-free hand-off.
const EdgeFree = false

type syncState struct {
	mu     sync.Mutex
	mmu    sync.Mutex // guards the wals/verifs maps and Points
	byGoid map[uint64]*Task
	events chan event
}

type taskSync struct {
	wake chan bool
}

func (s *Sim) initSync() {
	s.byGoid = map[uint64]*Task{}
	s.events = make(chan event, 64)
}

func (s *Sim) lock()    { s.mu.Lock() }
func (s *Sim) unlock()  { s.mu.Unlock() }
func (s *Sim) mlock()   { s.mmu.Lock() }
func (s *Sim) munlock() { s.mmu.Unlock() }

func (s *Sim) regGoid(g uint64, t *Task) { s.byGoid[g] = t }
func (s *Sim) lookup(g uint64) *Task     { return s.byGoid[g] }

func (s *Sim) initTask(t *Task) { t.wake = make(chan bool, 1) }

func (s *Sim) post(ev event) { s.events <- ev }

func (s *Sim) await(t *Task) bool { return <-t.wake }

func (s *Sim) resume(t *Task, die bool) { t.wake <- die }

func (s *Sim) next(d time.Duration) (event, bool) {
	timer := time.NewTimer(d)
	defer timer.Stop()
	select {
	case ev := <-s.events:
		return ev, true
	case <-timer.C:
		return event{}, false
	}
}

func (s *Sim) joined() {}
