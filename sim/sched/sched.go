// Package sched is the deterministic scheduler of the simulation. Every
// participant (harness tasks and goroutines started by the library under test)
// is a real goroutine, but exactly one of them executes at any time and the
// choice of which one proceeds at every yield point is taken from the tape.
// Blocking operations of the code under test (mutex acquisition, channel
// receives) are modelled from the verifhook notifications, so a task is only
// resumed when the real operation will not block.
package sched

import (
	"fmt"
	"os"
	"runtime"
	"runtime/debug"
	"sort"
	"strings"
	"sync/atomic"
	"time"

	"github.com/hashicorp/raft-wal/verifhook"
	"verif/sim/tape"
)

// ErrKind classifies how Wait ended.
type EndKind int

const (
	EndDone     EndKind = iota // every harness task finished
	EndCrashed                 // a task called Crash
	EndDeadlock                // no task runnable, harness tasks unfinished
	EndSteps                   // step budget exhausted
)

func (k EndKind) String() string {
	return [...]string{"done", "crashed", "deadlock", "steps"}[k]
}

const (
	stRunning = iota
	stParked
	stDone
)

type evKind int

const (
	evPark evKind = iota
	evDone
	evAdopt
	evCrash
)

type event struct {
	kind evKind
	t    *Task
}

// Task is one schedulable participant.
type Task struct {
	ID      int
	Name    string
	Harness bool
	Ctx     interface{}

	goid uint64
	taskSync
	state    int
	point    string
	ready    func() bool
	onResume func()
	dead     bool

	PanicVal   interface{}
	PanicStack string

	walKey      string    // for library tasks: the WAL dir they belong to
	wm          *walModel // for rotators: the model of the WAL instance that spawned them
	placeholder bool      // reserved at a spawn hook, not yet claimed by its goroutine
	// inUnlocked: the task is between the Unlock and the re-Lock inside
	// awaitRotationLocked, where its caller's deferred Unlock must not run on an
	// unlocked mutex if the goroutine is torn down here.
	inUnlocked bool
	unlockKey  string
	doneSeen   bool
}

func (t *Task) Point() string { return t.point }
func (t *Task) Done() bool    { return t.state == stDone }

type walModel struct {
	holder      *Task
	trigPending int
	trigClosed  bool
	trigGen     int
	doneGen     int
	rotatorGone bool
}

// small association lists instead of maps: Go maps carry race-detector hooks
// inside the runtime, which would flag the harness's own (serialised) accesses
// from different task goroutines in edge-free race builds.
type walEntry struct {
	key string
	m   *walModel
}
type verEntry struct {
	ctx interface{}
	m   *verModel
}

type verModel struct {
	chanLen    int
	chanClosed bool
}

// Sim is one generation ("process lifetime") of simulated execution.
type Sim struct {
	syncState
	All []*Task

	running  *Task
	spawned  int // adoptions announced (written by the running task / Go)
	adopted  int // adoptions completed (written by the engine)
	adoptCtx interface{}
	last     *Task

	Tape     *tape.Tape
	Steps    int
	resumes  int
	MaxSteps int
	// StickNum/StickDen: probability of staying on the last-run task when it is
	// still runnable (0 => uniform choice).
	StickNum, StickDen int

	wals   []walEntry
	verifs []verEntry

	// Sig is a hash of (task, point) at every decision that had more than one
	// runnable task; Contended counts those decisions.
	Sig       uint64
	Contended int

	// Points counts how often each hook point was passed (reach probes).
	Points map[string]int

	dead    bool
	crashed bool

	// OnUnsafeDie is called in a dying task's goroutine when it is torn down
	// between awaitRotationLocked's Unlock and re-Lock: the harness must make
	// sure the WAL's mutex is locked so that the deferred Unlock of the dying
	// call does not hit an unlocked mutex (a fatal, unrecoverable error).
	OnUnsafeDie func(key string)

	// OnHook, if set, is called (in the task's goroutine, while it is the only
	// one running) for every hook point of a live task before it parks.
	OnHook func(t *Task, point string)

	TraceOn bool
	Trace   []string

	WatchdogSecs int
}

var cur atomic.Pointer[Sim]

func init() {
	verifhook.Yield = func(point, key string) {
		s := cur.Load()
		if s == nil {
			return
		}
		s.hook(point, key, nil)
	}
	verifhook.YieldChan = func(point, key string, ch <-chan struct{}) {
		s := cur.Load()
		if s == nil {
			return
		}
		s.hook(point, key, ch)
	}
}

func goid() uint64 {
	var buf [64]byte
	n := runtime.Stack(buf[:], false)
	// "goroutine 123 ["
	b := buf[10:n]
	var id uint64
	for _, c := range b {
		if c < '0' || c > '9' {
			break
		}
		id = id*10 + uint64(c-'0')
	}
	return id
}

// New creates a generation and installs it as the current one.
func New(tp *tape.Tape) *Sim {
	s := &Sim{
		All:          make([]*Task, 0, 512),
		Tape:         tp,
		MaxSteps:     20000,
		Points:       map[string]int{},
		WatchdogSecs: 20,
	}
	s.initSync()
	cur.Store(s)
	return s
}

// walFor returns the model a task's hook refers to: rotators are bound to the
// WAL instance that spawned them, other tasks address the current instance at
// key.
func (s *Sim) walFor(t *Task, key string) *walModel {
	if t != nil && t.wm != nil {
		return t.wm
	}
	return s.wal(key)
}

func (s *Sim) wal(key string) *walModel {
	s.mlock()
	defer s.munlock()
	for i := len(s.wals) - 1; i >= 0; i-- {
		if s.wals[i].key == key {
			return s.wals[i].m
		}
	}
	m := &walModel{}
	s.wals = append(s.wals, walEntry{key, m})
	return m
}

func (s *Sim) setWal(key string, m *walModel) {
	s.mlock()
	s.wals = append(s.wals, walEntry{key, m})
	s.munlock()
}

func (s *Sim) ver(ctx interface{}) *verModel {
	s.mlock()
	defer s.munlock()
	for i := len(s.verifs) - 1; i >= 0; i-- {
		if s.verifs[i].ctx == ctx {
			return s.verifs[i].m
		}
	}
	m := &verModel{}
	s.verifs = append(s.verifs, verEntry{ctx, m})
	return m
}

// Current returns the task of the calling goroutine (nil if unknown or dead).
func (s *Sim) Current() *Task {
	g := goid()
	s.lock()
	t := s.lookup(g)
	s.unlock()
	if t == nil || t.dead {
		return nil
	}
	return t
}

// Dead reports whether this generation has crashed / been torn down. Seams
// must be inert when it returns true.
func (s *Sim) Dead() bool {
	s.lock()
	d := s.dead
	s.unlock()
	return d
}

func (s *Sim) trace(format string, args ...interface{}) {
	if s.TraceOn {
		s.Trace = append(s.Trace, fmt.Sprintf(format, args...))
	}
}

// Go starts a harness task. It may be called before Wait or from a running
// task. The new task does not run until the scheduler picks it.
func (s *Sim) Go(name string, ctx interface{}, fn func()) *Task {
	s.lock()
	t := &Task{ID: len(s.All), Name: name, Harness: true, Ctx: ctx}
	s.initTask(t)
	s.All = append(s.All, t)
	s.spawned++
	s.unlock()
	go func() {
		g := goid()
		s.lock()
		t.goid = g
		s.regGoid(g, t)
		t.state = stParked
		t.point = "start"
		s.unlock()
		defer func() {
			if r := recover(); r != nil {
				t.PanicVal = r
				t.PanicStack = string(debug.Stack())
			}
			s.releaseMutexes(t)
			s.lock()
			t.state = stDone
			s.unlock()
			s.post(event{evDone, t})
		}()
		s.post(event{evAdopt, t})
		if s.await(t) {
			runtime.Goexit()
		}
		fn()
	}()
	return t
}

// park is called by the running task: it records why it parks and waits to be
// resumed. If the generation dies meanwhile the goroutine exits.
func (s *Sim) park(t *Task, point string, ready func() bool, onResume func()) {
	s.lock()
	t.point = point
	t.ready = ready
	t.onResume = onResume
	t.state = stParked
	s.unlock()
	s.post(event{evPark, t})
	if s.await(t) {
		if t.inUnlocked && s.OnUnsafeDie != nil {
			s.OnUnsafeDie(t.unlockKey)
		}
		runtime.Goexit()
	}
}

// Yield is a plain scheduling point for the calling task.
func (s *Sim) Yield(point string) {
	t := s.Current()
	if t == nil {
		return
	}
	s.park(t, point, nil, nil)
}

// MaybeYield is Yield with a fast path: when no other task could be chosen the
// caller continues without a context switch (the decision would have had a
// single candidate and consumed no tape).
func (s *Sim) MaybeYield(point string) {
	t := s.Current()
	if t == nil {
		return
	}
	s.lock()
	slow := s.spawned != s.adopted
	if !slow {
		for _, o := range s.All {
			if o == t || o.state != stParked {
				continue
			}
			if o.ready == nil || o.ready() {
				slow = true
				break
			}
		}
	}
	s.unlock()
	if !slow {
		return
	}
	s.park(t, point, nil, nil)
}

// WaitUntil parks the calling task until cond() holds. cond is evaluated by
// the scheduler while no task is running.
func (s *Sim) WaitUntil(point string, cond func() bool) {
	t := s.Current()
	if t == nil {
		return
	}
	s.park(t, point, cond, nil)
}

// VerifierDrained returns a predicate (usable as a WaitUntil condition: it
// takes no locks) telling whether the verifier goroutine(s) belonging to ctx
// have nothing left to do: report channel empty (as modelled from the
// verifier.sent notifications) and every live library task of that context
// parked at verifier.idle.
func (s *Sim) VerifierDrained(ctx interface{}) func() bool {
	m := s.ver(ctx)
	return func() bool {
		if m.chanLen > 0 {
			return false
		}
		for _, t := range s.All {
			if t == nil || t.Harness || t.dead || t.state == stDone || t.Ctx != ctx {
				continue
			}
			if t.state != stParked || t.point != "verifier.idle" {
				return false
			}
		}
		return true
	}
}

// Quiesce parks the calling task until no other task is runnable.
func (s *Sim) Quiesce(point string) {
	t := s.Current()
	if t == nil {
		return
	}
	s.park(t, point, func() bool {
		for _, o := range s.All {
			if o == t || o.state != stParked {
				continue
			}
			if o.ready == nil || o.ready() {
				return false
			}
		}
		return true
	}, nil)
	s.joined()
}

// OpEnd must be called by a harness task after every API call into the code
// under test returned (or panicked): deferred unlocks have run by then.
func (s *Sim) OpEnd() {
	t := s.Current()
	if t == nil {
		return
	}
	s.releaseMutexes(t)
}

func (s *Sim) releaseMutexes(t *Task) {
	s.mlock()
	for _, e := range s.wals {
		if e.m.holder == t {
			e.m.holder = nil
		}
	}
	s.munlock()
}

// ExpectSpawn tells the scheduler that the next library goroutine to appear
// belongs to ctx (used for verifier goroutines, whose hooks carry no key).
func (s *Sim) SetSpawnCtx(ctx interface{}) {
	s.lock()
	s.adoptCtx = ctx
	s.unlock()
}

// Crash is called by the running task: the whole generation dies here.
func (s *Sim) Crash() {
	s.lock()
	s.dead = true
	s.crashed = true
	t := s.lookup(goid())
	if t != nil {
		t.dead = true
	}
	s.unlock()
	s.post(event{evCrash, t})
	runtime.Goexit()
}

func (s *Sim) hook(point, key string, ch <-chan struct{}) {
	g := goid()
	s.lock()
	if s.dead {
		s.unlock()
		return
	}
	t := s.lookup(g)
	if t == nil {
		// A goroutine started by the library: adopt it at its first hook.
		if point == "rotate.idle" || point == "verifier.start" {
			want := "rotator"
			if point == "verifier.start" {
				want = "verifier"
			}
			// claim the oldest placeholder of this kind reserved at the spawn hook
			for _, c := range s.All {
				if c.placeholder && c.Name == want {
					t = c
					break
				}
			}
			if t != nil {
				t.placeholder = false
				t.goid = g
				if want == "rotator" {
					t.walKey = key
				}
				s.regGoid(g, t)
				t.state = stParked
				s.unlock()
				if !EdgeFree {
					s.count(point)
				}
				s.adoptPark(t, point, key)
				return
			}
		}
		s.unlock()
		return
	}
	if t.dead {
		s.unlock()
		return
	}
	s.unlock()
	s.count(point)
	if s.OnHook != nil {
		s.OnHook(t, point)
	}
	s.dispatch(t, point, key, ch)
}

func (s *Sim) count(point string) {
	if EdgeFree {
		return
	}
	s.mlock()
	s.Points[point]++
	s.munlock()
}

// adoptPark registers the first park of an adopted library goroutine. The
// adoptee is not the running task, so it announces itself with evAdopt.
func (s *Sim) adoptPark(t *Task, point, key string) {
	ready, onResume := s.blockFor(t, point, key)
	s.lock()
	t.point = point
	t.ready = ready
	t.onResume = onResume
	s.unlock()
	s.post(event{evAdopt, t})
	if s.await(t) {
		runtime.Goexit()
	}
	if point == "verifier.start" {
		return
	}
}

// blockFor returns the readiness predicate and resume action for the blocking
// hook points.
func (s *Sim) blockFor(t *Task, point, key string) (func() bool, func()) {
	switch point {
	case "writeMu.lock":
		m := s.walFor(t, key)
		// a task recorded as holder that asks for the lock again has necessarily
		// released it (its previous API call returned without the harness
		// noticing, e.g. when the code under test is driven by other library code)
		return func() bool { return m.holder == nil || m.holder == t }, func() { m.holder = t; t.inUnlocked = false }
	case "awaitRotate.wait":
		m := s.walFor(t, key)
		want := m.trigGen
		t.inUnlocked = true
		t.unlockKey = key
		return func() bool { return m.doneGen >= want }, nil
	case "rotate.idle":
		m := s.walFor(t, key)
		return func() bool { return m.trigPending > 0 || m.trigClosed }, func() {
			if m.trigPending > 0 {
				m.trigPending--
			}
		}
	case "verifier.idle":
		m := s.ver(t.Ctx)
		return func() bool { return m.chanLen > 0 || m.chanClosed }, func() {
			if m.chanLen > 0 {
				m.chanLen--
			}
		}
	}
	return nil, nil
}

func (s *Sim) dispatch(t *Task, point, key string, ch <-chan struct{}) {
	switch point {
	// ---- pure notifications (no yield) ----
	case "rotate.spawn", "verifier.spawn":
		s.lock()
		s.spawned++
		ph := &Task{ID: len(s.All), placeholder: true, state: stRunning}
		s.initTask(ph)
		if point == "rotate.spawn" {
			ph.Name = "rotator"
			ph.wm = &walModel{}
			s.setWal(key, ph.wm)
		} else {
			ph.Name = "verifier"
			ph.Ctx = s.adoptCtx
		}
		s.All = append(s.All, ph)
		s.unlock()
		return
	case "writeMu.unlocked":
		m := s.walFor(t, key)
		if m.holder == t {
			m.holder = nil
		}
		return
	case "rotate.triggered":
		m := s.walFor(t, key)
		m.trigPending++
		m.trigGen++
		return
	case "rotate.chanClosed":
		s.walFor(t, key).trigClosed = true
		return
	case "rotate.done":
		m := s.walFor(t, key)
		m.doneGen = m.trigGen
		return
	case "verifier.sent":
		s.ver(t.Ctx).chanLen++
		return
	case "verifier.dropped":
		return
	case "verifier.chanClosed":
		s.ver(t.Ctx).chanClosed = true
		return
	case "rotate.exit", "verifier.exit":
		// The goroutine returns right after this hook and touches nothing else.
		s.lock()
		t.state = stDone
		t.dead = true
		if point == "rotate.exit" {
			s.walFor(t, key).rotatorGone = true
		}
		s.unlock()
		s.post(event{evDone, t})
		return
	}
	ready, onResume := s.blockFor(t, point, key)
	if ch != nil {
		// readiness of a channel wait is read off the real channel: a receive
		// from a closed channel never blocks (and consumes nothing)
		ready = func() bool {
			select {
			case <-ch:
				return true
			default:
				return false
			}
		}
	}
	s.park(t, point, ready, onResume)
}

// RotatorGone reports whether the rotation goroutine of the WAL at key exited.
func (s *Sim) RotatorGone(key string) bool { return s.wal(key).rotatorGone }

// RotationPending reports whether a triggered rotation has not completed.
func (s *Sim) RotationPending(key string) bool {
	m := s.wal(key)
	return m.doneGen < m.trigGen
}

// Result describes how a generation ended.
type Result struct {
	Kind     EndKind
	Detail   string
	Panicked *Task
}

// Wait runs the scheduler until every harness task is done, a crash, a
// deadlock or the step budget. It must be called from a non-task goroutine.
func (s *Sim) Wait() Result {
	for {
		// wait for quiescence
		for {
			s.lock()
			busy := s.running != nil || s.spawned != s.adopted
			s.unlock()
			if !busy {
				break
			}
			ev, ok := s.next(time.Duration(s.WatchdogSecs) * time.Second)
			if !ok {
				s.watchdog()
			}
			{
				s.lock()
				switch ev.kind {
				case evPark, evDone, evCrash:
					if s.running == ev.t {
						s.running = nil
					}
					if ev.kind == evDone {
						ev.t.doneSeen = true
					}
				case evAdopt:
					s.adopted++
				}
				s.unlock()
			}
		}
		if s.crashed {
			s.teardown()
			return Result{Kind: EndCrashed}
		}
		// panics in harness tasks end the generation
		for _, t := range s.All {
			if t.PanicVal != nil {
				s.teardown()
				return Result{Kind: EndDone, Panicked: t}
			}
		}
		// collect runnable
		var runnable []*Task
		unfinishedHarness := 0
		for _, t := range s.All {
			if t.state == stDone {
				continue
			}
			if t.Harness {
				unfinishedHarness++
			}
			if t.state == stParked && (t.ready == nil || t.ready()) {
				runnable = append(runnable, t)
			}
		}
		if unfinishedHarness == 0 {
			s.teardown()
			return Result{Kind: EndDone}
		}
		if len(runnable) == 0 {
			d := s.describe()
			s.teardown()
			return Result{Kind: EndDeadlock, Detail: d}
		}
		if s.resumes >= s.MaxSteps {
			d := s.describe()
			s.teardown()
			return Result{Kind: EndSteps, Detail: d}
		}
		s.resumes++
		if len(runnable) > 1 {
			// Steps counts decisions; single-candidate resumes depend on whether a
			// yield took its fast path, which is timing dependent and irrelevant
			s.Steps++
		}
		sort.Slice(runnable, func(i, j int) bool { return runnable[i].ID < runnable[j].ID })
		// put the last-run task first so that choice 0 means "continue"
		for i, t := range runnable {
			if t == s.last && i != 0 {
				copy(runnable[1:i+1], runnable[0:i])
				runnable[0] = t
				break
			}
		}
		idx := 0
		if len(runnable) > 1 {
			if s.StickDen > 0 && runnable[0] == s.last && !s.Tape.Chance(s.StickDen-s.StickNum, s.StickDen) {
				idx = 0
			} else {
				idx = s.Tape.Choose(len(runnable))
			}
			s.Contended++
			h := s.Sig*1099511628211 + uint64(runnable[idx].ID+1)
			for i := 0; i < len(runnable[idx].point); i++ {
				h = (h ^ uint64(runnable[idx].point[i])) * 1099511628211
			}
			s.Sig = h
		}
		t := runnable[idx]
		if s.TraceOn {
			s.trace("run %d:%s @%s (of %d)", t.ID, t.Name, t.point, len(runnable))
		}
		if t.onResume != nil {
			t.onResume()
		}
		s.lock()
		t.state = stRunning
		t.ready, t.onResume = nil, nil
		s.running = t
		s.last = t
		s.unlock()
		s.resume(t, false)
	}
}

// teardown kills every remaining task of this generation, one at a time.
func (s *Sim) teardown() {
	s.lock()
	s.dead = true
	tasks := append([]*Task(nil), s.All...)
	s.unlock()
	waitDone := func(t *Task) {
		for {
			s.lock()
			seen := t.doneSeen
			s.unlock()
			if seen {
				return
			}
			ev, ok := s.next(time.Duration(s.WatchdogSecs) * time.Second)
			if !ok {
				s.watchdog()
			}
			if ev.kind == evDone {
				s.lock()
				ev.t.doneSeen = true
				s.unlock()
			}
		}
	}
	for _, t := range tasks {
		if t.placeholder {
			continue
		}
		s.lock()
		parked := t.state == stParked
		if parked {
			t.dead = true
			t.state = stDone
		}
		s.unlock()
		if parked {
			s.resume(t, true)
		}
		// every harness goroutine sends exactly one evDone from its wrapper;
		// wait for it so that dying goroutines never overlap each other or the
		// next generation. Library goroutines are inert once dead.
		if t.Harness {
			waitDone(t)
		}
	}
	cur.CompareAndSwap(s, nil)
}

func (s *Sim) describe() string {
	var sb strings.Builder
	for _, t := range s.All {
		st := "parked"
		if t.state == stDone {
			st = "done"
		} else if t.state == stRunning {
			st = "running"
		}
		r := ""
		if t.state == stParked && t.ready != nil && !t.ready() {
			r = " (blocked)"
		}
		fmt.Fprintf(&sb, "[%d:%s %s@%s%s] ", t.ID, t.Name, st, t.point, r)
	}
	return sb.String()
}

// OnStuck, if set, is called by the watchdog with the scheduler's view and the
// stack of the goroutine that failed to reach a yield point, before the process
// exits with status 2.
var OnStuck func(desc, stack string)

func (s *Sim) watchdog() {
	buf := make([]byte, 4<<20)
	n := runtime.Stack(buf, true)
	all := string(buf[:n])
	stuck := ""
	s.lock()
	run := s.running
	s.unlock()
	if run != nil {
		hdr := fmt.Sprintf("goroutine %d [", run.goid)
		if i := strings.Index(all, hdr); i >= 0 {
			stuck = all[i:]
			if j := strings.Index(stuck, "\n\n"); j >= 0 {
				stuck = stuck[:j]
			}
		}
	}
	desc := s.describe()
	if OnStuck != nil {
		OnStuck(desc, stuck)
	}
	fmt.Fprintf(os.Stderr, "WATCHDOG: scheduler waited %ds for the running task; harness/model mismatch\n%s\n%s\n",
		s.WatchdogSecs, desc, all)
	os.Exit(2)
}
