// Package tape is the single source of nondeterminism of a simulation run: a
// splitmix64 PRNG whose every draw is recorded, and which can be replaced by a
// recorded sequence for exact replay. Implemented here (not math/rand) so the
// stream is identical across Go versions.
package tape

// RNG is splitmix64.
type RNG struct{ S uint64 }

func (r *RNG) Next() uint64 {
	r.S += 0x9e3779b97f4a7c15
	z := r.S
	z = (z ^ (z >> 30)) * 0xbf58476d1ce4e5b9
	z = (z ^ (z >> 27)) * 0x94d049bb133111eb
	return z ^ (z >> 31)
}

// Intn returns a value in [0,n).
func (r *RNG) Intn(n int) int {
	if n <= 1 {
		return 0
	}
	return int(r.Next() % uint64(n))
}

// Chance returns true with probability num/den.
func (r *RNG) Chance(num, den int) bool { return r.Intn(den) < num }

// Pick returns one of the weights' indexes proportionally.
func (r *RNG) Pick(weights []int) int {
	tot := 0
	for _, w := range weights {
		tot += w
	}
	if tot <= 0 {
		return 0
	}
	x := r.Intn(tot)
	for i, w := range weights {
		if x < w {
			return i
		}
		x -= w
	}
	return len(weights) - 1
}

// Mix derives an independent seed from two values.
func Mix(a, b uint64) uint64 {
	r := RNG{S: a ^ (b * 0xd6e8feb86659fd93)}
	r.Next()
	return r.Next() ^ b
}

// Tape is a recorded stream of bounded choices. In record mode values come
// from the PRNG; in replay mode they come from Replay (reduced modulo n) and,
// once Replay is exhausted, are 0 - the "simplest" choice by convention of
// every caller (stay on the current task, no fault, keep everything).
type Tape struct {
	rng       RNG
	Rec       []uint32
	replay    []uint32
	replaying bool
	pos       int
}

func New(seed uint64) *Tape { return &Tape{rng: RNG{S: seed}} }

func NewReplay(vals []uint32) *Tape {
	return &Tape{replay: vals, replaying: true}
}

// Choose returns a value in [0,n). n<=1 consumes nothing.
func (t *Tape) Choose(n int) int {
	if n <= 1 {
		return 0
	}
	var v int
	if t.replaying {
		if t.pos < len(t.replay) {
			v = int(t.replay[t.pos]) % n
		}
		t.pos++
	} else {
		v = int(t.rng.Next() % uint64(n))
	}
	t.Rec = append(t.Rec, uint32(v))
	return v
}

// Chance is true with probability num/den; false is the "simple" value 0.
func (t *Tape) Chance(num, den int) bool {
	// value 0 => false so that an exhausted replay tape yields false.
	return t.Choose(den) >= den-num
}

// Len is the number of choices consumed so far.
func (t *Tape) Len() int { return len(t.Rec) }
