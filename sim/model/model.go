// Package model holds the reference models (contiguous log + stable map) and
// the candidate-set oracle that relates them to observations of the real WAL
// under crashes and injected I/O errors.
package model

import (
	"bytes"
	"encoding/binary"
	"fmt"
	"sort"
	"time"

	"github.com/hashicorp/raft"
)

// Entry is a generated log entry. Every entry ever submitted has a unique ID
// which determines all of its fields, so a read is attributable to exactly one
// write.
type Entry struct {
	ID      uint64
	Index   uint64
	Size    int // len(Data)
	ExtSize int // len(Extensions)
	big     *raft.Log
}

var baseTime = time.Date(2024, 3, 9, 7, 30, 0, 0, time.UTC)

func fill(b []byte, seed uint64) {
	x := seed*0x9e3779b97f4a7c15 + 0x1234567
	for i := range b {
		x ^= x << 13
		x ^= x >> 7
		x ^= x << 17
		b[i] = byte(x >> 24)
	}
}

// Log materialises the raft.Log of this entry.
func (e *Entry) Log() *raft.Log {
	if e.big != nil {
		return e.big
	}
	l := &raft.Log{Index: e.Index}
	if e.Size >= 1<<20 {
		defer func() { e.big = l }()
	}
	l.Term = termOf(e.ID)
	l.Type = typeOf(e.ID)
	if e.Size > 0 {
		l.Data = make([]byte, e.Size)
		fill(l.Data, e.ID)
		var idb [8]byte
		binary.LittleEndian.PutUint64(idb[:], e.ID)
		copy(l.Data, idb[:])
	}
	if e.ExtSize > 0 {
		l.Extensions = make([]byte, e.ExtSize)
		fill(l.Extensions, ^e.ID)
	}
	l.AppendedAt = timeOf(e.ID)
	return l
}

// termOf: unique per ID (so entries with tiny payloads are still
// distinguishable) and biased to varint boundaries.
func termOf(id uint64) uint64 {
	switch id % 13 {
	case 3:
		return 1<<56 + id // 9-byte varint
	case 7:
		return ^uint64(0) - id // near MaxUint64
	}
	return id + 1
}

func typeOf(id uint64) raft.LogType {
	switch id % 11 {
	case 0:
		return raft.LogNoop
	case 1:
		return raft.LogBarrier
	case 2:
		return raft.LogConfiguration
	case 3:
		return raft.LogType(255)
	case 4:
		return raft.LogType(127)
	case 5:
		return raft.LogType(128)
	}
	return raft.LogCommand
}

func timeOf(id uint64) time.Time {
	switch id % 5 {
	case 0:
		return time.Time{}
	case 1:
		return baseTime.Add(time.Duration(id) * time.Millisecond)
	case 2:
		return baseTime.Add(time.Duration(id) * time.Second).In(time.FixedZone("x", 3600*5+1800))
	case 3:
		return baseTime.Add(time.Duration(id) * time.Microsecond).In(time.FixedZone("", -7*3600))
	}
	// a time with a sub-minute zone offset exercises MarshalBinary v2
	return baseTime.Add(time.Duration(id) * time.Nanosecond).In(time.FixedZone("odd", 3600+17))
}

// DiffLog returns "" when got equals want in every field (instant equality for
// the time, bytes.Equal for slices), else a description.
func DiffLog(want, got *raft.Log) string {
	if want.Index != got.Index {
		return fmt.Sprintf("Index want %d got %d", want.Index, got.Index)
	}
	if want.Term != got.Term {
		return fmt.Sprintf("Term want %d got %d", want.Term, got.Term)
	}
	if want.Type != got.Type {
		return fmt.Sprintf("Type want %d got %d", want.Type, got.Type)
	}
	if !bytes.Equal(want.Data, got.Data) {
		return fmt.Sprintf("Data differs (want len %d got len %d)", len(want.Data), len(got.Data))
	}
	if !bytes.Equal(want.Extensions, got.Extensions) {
		return fmt.Sprintf("Extensions differ (want len %d got len %d)", len(want.Extensions), len(got.Extensions))
	}
	if !want.AppendedAt.Equal(got.AppendedAt) {
		return fmt.Sprintf("AppendedAt want %v got %v", want.AppendedAt, got.AppendedAt)
	}
	return ""
}

// IDOf extracts the entry ID embedded in a log read back (0 if too short).
func IDOf(l *raft.Log) uint64 {
	if len(l.Data) >= 8 {
		return binary.LittleEndian.Uint64(l.Data[:8])
	}
	return 0
}

// State is one possible state of log + stable store.
type State struct {
	First, Last uint64
	Ent         map[uint64]*Entry
	Stable      map[string]string
}

func NewState() *State {
	return &State{Ent: map[uint64]*Entry{}, Stable: map[string]string{}}
}

func (s *State) Clone() *State {
	c := &State{First: s.First, Last: s.Last, Ent: make(map[uint64]*Entry, len(s.Ent)), Stable: make(map[string]string, len(s.Stable))}
	for k, v := range s.Ent {
		c.Ent[k] = v
	}
	for k, v := range s.Stable {
		c.Stable[k] = v
	}
	return c
}

func (s *State) Empty() bool { return s.Last == 0 }

// Len is the number of entries.
func (s *State) Len() int {
	if s.Last == 0 {
		return 0
	}
	return int(s.Last - s.First + 1)
}

// Key is a canonical digest for deduplication.
func (s *State) Key() string {
	var b bytes.Buffer
	fmt.Fprintf(&b, "%d-%d:", s.First, s.Last)
	if s.Last != 0 {
		for i := s.First; i <= s.Last; i++ {
			fmt.Fprintf(&b, "%x,", s.Ent[i].ID)
		}
	}
	keys := make([]string, 0, len(s.Stable))
	for k := range s.Stable {
		keys = append(keys, k)
	}
	sort.Strings(keys)
	for _, k := range keys {
		fmt.Fprintf(&b, "|%q=%q", k, s.Stable[k])
	}
	return b.String()
}

// OpKind enumerates mutating operations.
type OpKind int

const (
	OpAppend OpKind = iota
	OpDelete
	OpSet
)

// Op is a mutating call as issued.
type Op struct {
	Kind     OpKind
	Entries  []*Entry // append
	Min, Max uint64   // delete
	Key      string   // set
	Val      *string  // set; nil = delete key
}

func (o Op) String() string {
	switch o.Kind {
	case OpAppend:
		if len(o.Entries) == 0 {
			return "Append[]"
		}
		return fmt.Sprintf("Append[%d..%d]", o.Entries[0].Index, o.Entries[len(o.Entries)-1].Index)
	case OpDelete:
		return fmt.Sprintf("DeleteRange(%d,%d)", o.Min, o.Max)
	default:
		if o.Val == nil {
			return fmt.Sprintf("Set(%q,nil)", o.Key)
		}
		return fmt.Sprintf("Set(%q,%d bytes)", o.Key, len(*o.Val))
	}
}

// Legal reports whether the model accepts op in state s (the rules are the
// property statement's, not the implementation's).
func (s *State) Legal(o Op) bool {
	switch o.Kind {
	case OpAppend:
		if len(o.Entries) == 0 {
			return true
		}
		for i, e := range o.Entries {
			if e.Index != o.Entries[0].Index+uint64(i) {
				return false
			}
		}
		if o.Entries[0].Index == 0 {
			return false
		}
		if s.Empty() {
			return true
		}
		return o.Entries[0].Index == s.Last+1
	case OpDelete:
		if o.Min > o.Max || s.Empty() || o.Max < s.First || o.Min > s.Last {
			return true // no-op
		}
		if o.Min <= s.First || o.Max >= s.Last {
			return true
		}
		return false // strict middle
	}
	return true
}

// Apply mutates s by a legal op.
func (s *State) Apply(o Op) {
	switch o.Kind {
	case OpAppend:
		if len(o.Entries) == 0 {
			return
		}
		if s.Empty() {
			s.First = o.Entries[0].Index
		}
		for _, e := range o.Entries {
			s.Ent[e.Index] = e
			s.Last = e.Index
		}
	case OpDelete:
		if o.Min > o.Max || s.Empty() || o.Max < s.First || o.Min > s.Last {
			return
		}
		if o.Min <= s.First {
			hi := o.Max
			if hi > s.Last {
				hi = s.Last
			}
			for i := s.First; i <= hi; i++ {
				delete(s.Ent, i)
			}
			if o.Max >= s.Last {
				s.First, s.Last = 0, 0
			} else {
				s.First = o.Max + 1
			}
			return
		}
		for i := o.Min; i <= s.Last; i++ {
			delete(s.Ent, i)
		}
		s.Last = o.Min - 1
	case OpSet:
		if o.Val == nil {
			delete(s.Stable, o.Key)
		} else {
			s.Stable[o.Key] = *o.Val
		}
	}
}

// Removed returns how many entries a legal delete removes in s.
func (s *State) Removed(o Op) (head, tail uint64) {
	if o.Kind != OpDelete || o.Min > o.Max || s.Empty() || o.Max < s.First || o.Min > s.Last {
		return 0, 0
	}
	if o.Min <= s.First {
		hi := o.Max
		if hi > s.Last {
			hi = s.Last
		}
		return hi - s.First + 1, 0
	}
	return 0, s.Last - o.Min + 1
}

// Oracle tracks the sets of states the process may observe in memory (Mem) and
// the sets a reopen may find on disk (Disk).
type Oracle struct {
	Mem  []*State
	Disk []*State
	// MaybeOps counts ops that were relaxed (in flight at a crash or failed with
	// an injected error).
	MaybeOps int
	// Late holds appends that failed with an injected error. Their bytes may
	// still sit in the file (un-fsynced) and a reopen may find them committed:
	// like any operation with an unknown outcome they may take effect late, i.e.
	// after operations acknowledged later in the same process, as long as they
	// are legal (contiguous) at that point and displace nothing.
	Late []Op
	// Ghosts are appends that were in flight at a crash. If a later recovery
	// shows such a batch although an earlier one showed it absent, the batch was
	// resurrected from stale bytes.
	Ghosts []Op
	fresh  bool // no observation yet since Restart
	// LateApplied counts reopens explained only by a late-applied failed append.
	LateApplied int
}

func NewOracle() *Oracle {
	return &Oracle{Mem: []*State{NewState()}, Disk: []*State{NewState()}}
}

func dedup(in []*State) []*State {
	seen := map[string]bool{}
	out := in[:0]
	for _, s := range in {
		k := s.Key()
		if seen[k] {
			continue
		}
		seen[k] = true
		out = append(out, s)
	}
	return out
}

func applyAll(set []*State, o Op) []*State {
	out := set[:0]
	for _, s := range set {
		if s.Legal(o) {
			s.Apply(o)
			out = append(out, s)
		}
	}
	return dedup(out)
}

func maybeAll(set []*State, o Op) []*State {
	out := make([]*State, 0, 2*len(set))
	for _, s := range set {
		out = append(out, s)
		if s.Legal(o) {
			c := s.Clone()
			c.Apply(o)
			out = append(out, c)
		}
	}
	return dedup(out)
}

// Acked records an operation that returned nil. It returns an error text if
// the model cannot explain the acknowledgement in any candidate.
func (or *Oracle) Acked(o Op) string {
	or.Mem = applyAll(or.Mem, o)
	or.Disk = applyAll(or.Disk, o)
	if len(or.Mem) == 0 {
		return fmt.Sprintf("%v was acknowledged but the model rejects it in every possible in-memory state", o)
	}
	if len(or.Disk) == 0 {
		return fmt.Sprintf("%v was acknowledged but the model rejects it in every possible durable state", o)
	}
	return ""
}

// Rejected records an operation that returned an error although no fault was
// injected: legal in the model => the implementation refused a legal call.
func (or *Oracle) Rejected(o Op) string {
	out := or.Mem[:0]
	for _, s := range or.Mem {
		if !s.Legal(o) {
			out = append(out, s)
		}
	}
	if len(out) == 0 {
		return fmt.Sprintf("%v was refused although the model accepts it", o)
	}
	or.Mem = out
	return ""
}

// Failed records an operation that returned an injected-fault error.
// In memory a failed append must be invisible; a failed delete or set may or
// may not have taken effect. On disk either is possible.
func (or *Oracle) Failed(o Op) {
	or.MaybeOps++
	if o.Kind != OpAppend {
		or.Mem = maybeAll(or.Mem, o)
	} else {
		or.Late = append(or.Late, o)
	}
	or.Disk = maybeAll(or.Disk, o)
}

// InFlight records the operation that was executing when the process died.
func (or *Oracle) InFlight(o Op) {
	or.MaybeOps++
	if o.Kind == OpAppend && len(o.Entries) > 0 {
		or.Ghosts = append(or.Ghosts, o)
		if len(or.Ghosts) > 8 {
			or.Ghosts = or.Ghosts[len(or.Ghosts)-8:]
		}
	}
	or.Disk = maybeAll(or.Disk, o)
}

// Restart: a new process sees what is on disk.
func (or *Oracle) Restart() {
	or.Mem = make([]*State, len(or.Disk))
	for i, s := range or.Disk {
		or.Mem[i] = s.Clone()
	}
	or.fresh = true
}

// Obs is what the harness read through the public API.
type Obs struct {
	First, Last uint64
	Logs        map[uint64]*raft.Log // successfully read entries in [First,Last]
	ReadErr     map[uint64]error     // failed reads in [First,Last]
	Stable      map[string]string    // keys probed -> value ("" = absent)
	StableSeen  bool
	Partial     bool // only a sample of [First,Last] was read
}

// matchLog compares the log part.
func (s *State) matchLog(o *Obs) string {
	if s.First != o.First || s.Last != o.Last {
		return fmt.Sprintf("FirstIndex/LastIndex want %d/%d got %d/%d", s.First, s.Last, o.First, o.Last)
	}
	if s.Last == 0 {
		return ""
	}
	for i := s.First; i <= s.Last; i++ {
		if err, bad := o.ReadErr[i]; bad {
			return fmt.Sprintf("GetLog(%d) failed: %v", i, err)
		}
		got := o.Logs[i]
		if got == nil {
			if o.Partial {
				continue
			}
			return fmt.Sprintf("GetLog(%d) not read", i)
		}
		if d := DiffLog(s.Ent[i].Log(), got); d != "" {
			return fmt.Sprintf("GetLog(%d): %s (want id %x got id %x)", i, d, s.Ent[i].ID, IDOf(got))
		}
	}
	return ""
}

func (s *State) matchStable(o *Obs) string {
	if !o.StableSeen {
		return ""
	}
	for k, v := range o.Stable {
		if s.Stable[k] != v {
			return fmt.Sprintf("stable key %q want %d bytes got %d bytes", k, len(s.Stable[k]), len(v))
		}
	}
	return ""
}

// Check matches an observation against the candidate set (Mem), narrowing it.
// durable=true additionally narrows Disk (use right after a reopen, when the
// observation is of the on-disk state). It returns "" or a description of the
// mismatch against the closest candidate.
func (or *Oracle) Check(o *Obs, durable bool) string {
	var keep []*State
	firstDiff := ""
	for _, s := range or.Mem {
		d := s.matchLog(o)
		if d == "" {
			d = s.matchStable(o)
		}
		if d == "" {
			keep = append(keep, s)
		} else if firstDiff == "" {
			firstDiff = d
		}
	}
	if len(keep) == 0 && or.fresh && len(or.Late) > 0 {
		late := or.Late
		if len(late) > 6 {
			late = late[len(late)-6:]
		}
	search:
		for _, s := range or.Mem {
			// every non-empty subset of the failed appends, applied in issue order
			for mask := 1; mask < 1<<uint(len(late)); mask++ {
				c := s.Clone()
				ok := true
				for i, l := range late {
					if mask&(1<<uint(i)) == 0 {
						continue
					}
					if len(l.Entries) == 0 || !c.Legal(l) {
						ok = false
						break
					}
					c.Apply(l)
				}
				if ok && c.matchLog(o) == "" && c.matchStable(o) == "" {
					keep = append(keep, c)
					or.LateApplied++
					if !durable {
						or.Disk = append(or.Disk, c.Clone())
					}
					break search
				}
			}
		}
	}
	or.fresh = false
	if durable {
		or.Late = nil
	}
	if len(keep) == 0 {
		return fmt.Sprintf("%s [none of %d candidate states matches]", firstDiff, len(or.Mem))
	}
	or.Mem = keep
	if durable {
		or.Disk = make([]*State, len(keep))
		for i, s := range keep {
			or.Disk[i] = s.Clone()
		}
	}
	return ""
}

// Definite returns the single candidate when the state is unambiguous.
func (or *Oracle) Definite() *State {
	if len(or.Mem) == 1 {
		return or.Mem[0]
	}
	return nil
}

// Cur returns a representative in-memory candidate (the first).
func (or *Oracle) Cur() *State { return or.Mem[0] }

// GhostExplains reports whether the observation equals some candidate state
// extended by one earlier in-flight (never acknowledged) batch that is not part
// of that candidate: a rolled-back batch that came back.
func (or *Oracle) GhostExplains(o *Obs) *Op {
	for _, s := range or.Mem {
		for i := range or.Ghosts {
			g := or.Ghosts[i]
			if !s.Legal(g) {
				continue
			}
			c := s.Clone()
			c.Apply(g)
			if c.matchLog(o) == "" {
				return &or.Ghosts[i]
			}
		}
	}
	return nil
}
