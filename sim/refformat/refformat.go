// Package refformat is an encoder/decoder of raft-wal segment files written
// from README.md ("Storage Format Overview") only. It shares no code with
// package segment.
//
// README ambiguity, resolved here and recorded in DESIGN.md: the commit frame's
// CRC covers "all bytes written since the last fsync"; for the first batch of a
// file that includes the 32-byte file header, which is written in the same
// first write (the README's parenthetical "or just after the file header" reads
// the other way; the golden directories pin the behaviour of the pinned tree).
package refformat

import (
	"encoding/binary"
	"fmt"
	"hash/crc32"
)

const (
	Magic       = 0x58eb6b0d
	HeaderLen   = 32
	FrameHdrLen = 8

	TypeInvalid = 0
	TypeEntry   = 1
	TypeIndex   = 2
	TypeCommit  = 3
)

var castagnoli = crc32.MakeTable(crc32.Castagnoli)

// Header is the 32-byte file header.
type Header struct {
	Magic     uint32
	Reserved  [3]byte
	Vsn       uint8
	BaseIndex uint64
	SegmentID uint64
	Codec     uint64
}

// Batch is everything written between two fsyncs: entry frames, optionally an
// index frame, and the commit frame.
type Batch struct {
	Entries  [][]byte // payloads
	Offsets  []uint32 // file offset of each entry frame
	HasIndex bool
	Index    []uint32 // index payload
	// IndexPayloadOffset is the file offset of the index array (after the frame header).
	IndexPayloadOffset uint32
	CRC                uint32 // as stored
	End                uint32 // file offset just after the commit frame
}

// Segment is a decoded file.
type Segment struct {
	Header  Header
	Batches []Batch
	// CommittedLen is the offset just after the last valid commit frame (0 if none).
	CommittedLen uint32
	// StopReason says why decoding stopped.
	StopReason string
}

func pad(n int) int { return (8 - n%8) % 8 }

// FileName formats the documented name: BaseIndex decimal, 20 wide; SegmentID hex, 16 wide.
func FileName(base, id uint64) string { return fmt.Sprintf("%020d-%016x.wal", base, id) }

// Decode parses b. It never fails: it stops at the first thing that is not a
// well formed, CRC-valid batch.
func Decode(b []byte) *Segment {
	s := &Segment{}
	if len(b) < HeaderLen {
		s.StopReason = "short header"
		return s
	}
	s.Header.Magic = binary.LittleEndian.Uint32(b[0:4])
	copy(s.Header.Reserved[:], b[4:7])
	s.Header.Vsn = b[7]
	s.Header.BaseIndex = binary.LittleEndian.Uint64(b[8:16])
	s.Header.SegmentID = binary.LittleEndian.Uint64(b[16:24])
	s.Header.Codec = binary.LittleEndian.Uint64(b[24:32])
	off := HeaderLen
	batchStart := 0 // first batch's CRC includes the header
	cur := Batch{}
	for {
		if off+FrameHdrLen > len(b) {
			s.StopReason = "eof"
			return s
		}
		typ := b[off]
		val := binary.LittleEndian.Uint32(b[off+4 : off+8])
		switch typ {
		case TypeInvalid:
			s.StopReason = "zero/invalid frame"
			return s
		case TypeEntry, TypeIndex:
			n := int(val)
			end := off + FrameHdrLen + n + pad(n)
			if end > len(b) || n < 0 {
				s.StopReason = "frame beyond eof"
				return s
			}
			payload := b[off+FrameHdrLen : off+FrameHdrLen+n]
			if typ == TypeEntry {
				if cur.HasIndex {
					s.StopReason = "entry after index in a batch"
					return s
				}
				cur.Entries = append(cur.Entries, payload)
				cur.Offsets = append(cur.Offsets, uint32(off))
			} else {
				if cur.HasIndex || n%4 != 0 {
					s.StopReason = "bad index frame"
					return s
				}
				cur.HasIndex = true
				cur.IndexPayloadOffset = uint32(off + FrameHdrLen)
				for i := 0; i+4 <= n; i += 4 {
					cur.Index = append(cur.Index, binary.LittleEndian.Uint32(payload[i:]))
				}
			}
			off = end
		case TypeCommit:
			got := crc32.Checksum(b[batchStart:off], castagnoli)
			if got != val {
				s.StopReason = "crc mismatch"
				return s
			}
			cur.CRC = val
			off += FrameHdrLen
			cur.End = uint32(off)
			s.Batches = append(s.Batches, cur)
			s.CommittedLen = uint32(off)
			cur = Batch{}
			batchStart = off
		default:
			s.StopReason = fmt.Sprintf("unknown frame type %d", typ)
			return s
		}
	}
}

func putFrameHdr(out []byte, typ uint8, val uint32) []byte {
	var h [8]byte
	h[0] = typ
	binary.LittleEndian.PutUint32(h[4:], val)
	return append(out, h[:]...)
}

// Encode rebuilds the file image (up to the last commit) from the decoded
// structure, computing offsets, padding and CRCs from the README's rules.
func Encode(s *Segment) []byte {
	out := make([]byte, HeaderLen, HeaderLen+1024)
	binary.LittleEndian.PutUint32(out[0:4], s.Header.Magic)
	copy(out[4:7], s.Header.Reserved[:])
	out[7] = s.Header.Vsn
	binary.LittleEndian.PutUint64(out[8:16], s.Header.BaseIndex)
	binary.LittleEndian.PutUint64(out[16:24], s.Header.SegmentID)
	binary.LittleEndian.PutUint64(out[24:32], s.Header.Codec)
	batchStart := 0
	for _, bt := range s.Batches {
		for _, e := range bt.Entries {
			out = putFrameHdr(out, TypeEntry, uint32(len(e)))
			out = append(out, e...)
			out = append(out, make([]byte, pad(len(e)))...)
		}
		if bt.HasIndex {
			n := len(bt.Index) * 4
			out = putFrameHdr(out, TypeIndex, uint32(n))
			for _, o := range bt.Index {
				var x [4]byte
				binary.LittleEndian.PutUint32(x[:], o)
				out = append(out, x[:]...)
			}
			out = append(out, make([]byte, pad(n))...)
		}
		crc := crc32.Checksum(out[batchStart:], castagnoli)
		out = putFrameHdr(out, TypeCommit, crc)
		batchStart = len(out)
	}
	return out
}

// EntryOffsets returns the file offsets of all committed entry frames, in order.
func (s *Segment) EntryOffsets() []uint32 {
	var o []uint32
	for _, b := range s.Batches {
		o = append(o, b.Offsets...)
	}
	return o
}

// AllEntries returns all committed entry payloads in order.
func (s *Segment) AllEntries() [][]byte {
	var o [][]byte
	for _, b := range s.Batches {
		o = append(o, b.Entries...)
	}
	return o
}

// Sealed reports whether the last committed batch carries an index frame.
func (s *Segment) Sealed() (bool, *Batch) {
	if len(s.Batches) == 0 {
		return false, nil
	}
	b := &s.Batches[len(s.Batches)-1]
	return b.HasIndex, b
}
