// Package simdisk is the simulated disk behind types.VFS: one directory with a
// volatile image (what the running process observes) and a durable image (what
// survives power loss), dirty-range tracking per file and pending directory
// operations. It is a pure data structure; scheduling, faults and handle
// semantics live in the seam wrappers of package engine.
package simdisk

import (
	"sort"
)

// Chooser is the tape.
type Chooser interface {
	Choose(n int) int
}

type span struct{ a, b int64 } // [a,b)

// Inode is one file.
type Inode struct {
	Ino   int
	Vol   []byte // contents seen by the process
	Dur   []byte // contents that are on the platter (len = durable length)
	dirty []span // ranges written since the last fsync of this inode, 8-byte aligned
}

// DirOp is a directory update not yet made durable by a directory fsync.
type DirOp struct {
	Create bool
	Name   string
	Ino    *Inode
}

// Stats counts what crashes actually did (fired, not configured).
type Stats struct {
	PowerLoss        int
	BlocksKept       int
	BlocksLost       int
	FilesTorn        int // files where some but not all dirty blocks survived
	DirOpsKept       int
	DirOpsLost       int
	CreatesLost      int
	LenShrunk        int // file came back shorter than the process saw it
	LenUnaligned     int // ... and ends at a byte that is not a multiple of 8
	StaleBytesBehind int // power loss left old non-zero bytes inside a rewritten range
}

// Disk is one simulated directory.
type Disk struct {
	Vol      dirMap
	Dur      dirMap
	Pending  []DirOp
	nextIno  int
	Prealloc bool
	Stats    Stats
}

func New(prealloc bool) *Disk {
	return &Disk{Prealloc: prealloc}
}

// dirMap is a directory: name -> inode, kept sorted by name. A slice, not a Go
// map, because Go maps carry race-detector hooks inside the runtime and the
// disk is touched (serially) by every task; directories hold a handful of
// names.
type dirMap []dirEnt

type dirEnt struct {
	name string
	ino  *Inode
}

func (m dirMap) get(name string) *Inode {
	for _, e := range m {
		if e.name == name {
			return e.ino
		}
	}
	return nil
}

func (m *dirMap) set(name string, ino *Inode) {
	for i, e := range *m {
		if e.name == name {
			(*m)[i].ino = ino
			return
		}
	}
	i := sort.Search(len(*m), func(i int) bool { return (*m)[i].name > name })
	// element-wise moves: copy() of pointerful elements goes through
	// runtime.typedslicecopy, which carries race-detector hooks
	*m = append(*m, dirEnt{})
	for j := len(*m) - 1; j > i; j-- {
		(*m)[j] = (*m)[j-1]
	}
	(*m)[i] = dirEnt{name, ino}
}

func (m *dirMap) del(name string) {
	for i, e := range *m {
		if e.name == name {
			for j := i; j+1 < len(*m); j++ {
				(*m)[j] = (*m)[j+1]
			}
			(*m)[len(*m)-1] = dirEnt{}
			*m = (*m)[:len(*m)-1]
			return
		}
	}
}

func (m dirMap) names() []string {
	out := make([]string, 0, len(m))
	for _, e := range m {
		out = append(out, e.name)
	}
	return out
}

// Create makes a new file; ok=false if the name exists.
func (d *Disk) Create(name string, size uint64) (*Inode, bool) {
	if d.Vol.get(name) != nil {
		return nil, false
	}
	d.nextIno++
	ino := &Inode{Ino: d.nextIno}
	if d.Prealloc && size > 0 {
		ino.Vol = make([]byte, size)
	}
	d.Vol.set(name, ino)
	d.Pending = append(d.Pending, DirOp{Create: true, Name: name, Ino: ino})
	return ino, true
}

func (d *Disk) Lookup(name string) *Inode { return d.Vol.get(name) }

// Unlink removes the name from the volatile directory; ok=false if absent.
func (d *Disk) Unlink(name string) bool {
	ino := d.Vol.get(name)
	if ino == nil {
		return false
	}
	d.Vol.del(name)
	d.Pending = append(d.Pending, DirOp{Create: false, Name: name, Ino: ino})
	return true
}

// SyncDir makes every pending directory operation durable.
func (d *Disk) SyncDir() {
	for _, op := range d.Pending {
		if op.Create {
			d.Dur.set(op.Name, op.Ino)
		} else if d.Dur.get(op.Name) == op.Ino {
			d.Dur.del(op.Name)
		}
	}
	d.Pending = d.Pending[:0]
}

// List returns the sorted volatile directory listing.
func (d *Disk) List() []string {
	return d.Vol.names()
}

// WriteAt applies a write to the volatile image.
func (ino *Inode) WriteAt(p []byte, off int64) {
	if len(p) == 0 {
		return
	}
	end := off + int64(len(p))
	if end > int64(len(ino.Vol)) {
		if end <= int64(cap(ino.Vol)) {
			ino.Vol = ino.Vol[:end]
		} else {
			nv := make([]byte, end, end+end/4)
			copy(nv, ino.Vol)
			ino.Vol = nv
		}
	}
	copy(ino.Vol[off:], p)
	a := off &^ 7
	b := (end + 7) &^ 7
	ino.addDirty(span{a, b})
}

func (ino *Inode) addDirty(s span) {
	// keep sorted & merged; the common case extends the last span
	n := len(ino.dirty)
	if n > 0 && s.a >= ino.dirty[n-1].a && s.a <= ino.dirty[n-1].b {
		if s.b > ino.dirty[n-1].b {
			ino.dirty[n-1].b = s.b
		}
		return
	}
	ino.dirty = append(ino.dirty, s)
	sort.Slice(ino.dirty, func(i, j int) bool { return ino.dirty[i].a < ino.dirty[j].a })
	out := ino.dirty[:0]
	for _, x := range ino.dirty {
		if len(out) > 0 && x.a <= out[len(out)-1].b {
			if x.b > out[len(out)-1].b {
				out[len(out)-1].b = x.b
			}
			continue
		}
		out = append(out, x)
	}
	ino.dirty = out
}

// Sync makes the contents and length of this inode durable.
func (ino *Inode) Sync() {
	if len(ino.Dur) != len(ino.Vol) {
		nd := make([]byte, len(ino.Vol))
		copy(nd, ino.Dur)
		ino.Dur = nd
	}
	for _, s := range ino.dirty {
		b := s.b
		if b > int64(len(ino.Vol)) {
			b = int64(len(ino.Vol))
		}
		if s.a < b {
			copy(ino.Dur[s.a:b], ino.Vol[s.a:b])
		}
	}
	ino.dirty = ino.dirty[:0]
}

// Dirty reports whether the inode has unsynced state.
func (ino *Inode) Dirty() bool { return len(ino.dirty) > 0 || len(ino.Dur) != len(ino.Vol) }

// ReadAt has os.File semantics minus errors for closed handles.
func (ino *Inode) ReadAt(p []byte, off int64) (int, bool) {
	if off >= int64(len(ino.Vol)) {
		return 0, true
	}
	n := copy(p, ino.Vol[off:])
	return n, n < len(p)
}

// SetContent replaces the file's bytes in both images (corruption at rest).
func (ino *Inode) SetContent(b []byte) {
	ino.Vol = append([]byte(nil), b...)
	ino.Dur = append([]byte(nil), b...)
	ino.dirty = nil
}

// subset patterns for power loss
const (
	patAllLost = iota
	patAllKept
	patPrefix
	patSuffix
	patOneHole
	patOneSurvivor
	patUniform
	nPat
)

func chooseSubset(tp Chooser, n int) []bool {
	keep := make([]bool, n)
	if n == 0 {
		return keep
	}
	// bias: the structured patterns reach the interesting states far more often
	// than uniform subsets do.
	pat := tp.Choose(nPat)
	switch pat {
	case patAllLost:
	case patAllKept:
		for i := range keep {
			keep[i] = true
		}
	case patPrefix:
		k := tp.Choose(n + 1)
		for i := 0; i < k; i++ {
			keep[i] = true
		}
	case patSuffix:
		k := tp.Choose(n + 1)
		for i := n - k; i < n; i++ {
			keep[i] = true
		}
	case patOneHole:
		h := tp.Choose(n)
		for i := range keep {
			keep[i] = i != h
		}
	case patOneSurvivor:
		keep[tp.Choose(n)] = true
	case patUniform:
		for i := range keep {
			keep[i] = tp.Choose(2) == 1
		}
	}
	return keep
}

// PowerLoss replaces the volatile image by a durable image in which every
// un-fsynced block of every file and every pending directory operation
// independently did or did not reach the disk (choices from tp). granule is
// the torn-write unit in bytes (multiple of 8).
func (d *Disk) PowerLoss(tp Chooser, granule int64) {
	d.Stats.PowerLoss++
	if granule < 8 {
		granule = 8
	}
	// directory first: which pending ops survive (applied in order)
	keepOps := chooseSubset(tp, len(d.Pending))
	for i, op := range d.Pending {
		if !keepOps[i] {
			d.Stats.DirOpsLost++
			if op.Create {
				d.Stats.CreatesLost++
			}
			continue
		}
		d.Stats.DirOpsKept++
		if op.Create {
			d.Dur.set(op.Name, op.Ino)
		} else if d.Dur.get(op.Name) == op.Ino {
			d.Dur.del(op.Name)
		}
	}
	d.Pending = d.Pending[:0]

	// files, in deterministic order
	var seen []*Inode
next:
	for _, e := range d.Dur {
		for _, s := range seen {
			if s == e.ino {
				continue next
			}
		}
		seen = append(seen, e.ino)
		d.tearFile(tp, e.ino, granule)
	}
	d.Vol = make(dirMap, len(d.Dur))
	for i := range d.Dur {
		d.Vol[i] = d.Dur[i]
	}
}

func (d *Disk) tearFile(tp Chooser, ino *Inode, granule int64) {
	if !ino.Dirty() {
		return
	}
	volLen := int64(len(ino.Vol))
	// enumerate granule-sized blocks touched by dirty spans
	var blocks []span
	for _, s := range ino.dirty {
		b := s.b
		if b > volLen {
			b = volLen
		}
		for a := s.a - s.a%granule; a < b; a += granule {
			e := a + granule
			if e > volLen {
				e = volLen
			}
			if len(blocks) > 0 && blocks[len(blocks)-1].a == a {
				continue
			}
			blocks = append(blocks, span{a, e})
		}
	}
	const maxBlocks = 256
	if len(blocks) > maxBlocks {
		// group consecutive blocks so the choice space stays bounded
		per := (len(blocks) + maxBlocks - 1) / maxBlocks
		var g []span
		for i := 0; i < len(blocks); i += per {
			j := i + per
			if j > len(blocks) {
				j = len(blocks)
			}
			g = append(g, span{blocks[i].a, blocks[j-1].b})
		}
		blocks = g
	}
	keep := chooseSubset(tp, len(blocks))
	kept, lost := 0, 0
	lastKeptEnd := int64(0)
	for i, k := range keep {
		if k {
			kept++
			if blocks[i].b > lastKeptEnd {
				lastKeptEnd = blocks[i].b
			}
		} else {
			lost++
		}
	}
	d.Stats.BlocksKept += kept
	d.Stats.BlocksLost += lost
	if kept > 0 && lost > 0 {
		d.Stats.FilesTorn++
	}
	lower := int64(len(ino.Dur))
	if lastKeptEnd > lower {
		lower = lastKeptEnd
	}
	newLen := volLen
	if lower < volLen {
		switch tp.Choose(3) {
		case 0:
			newLen = volLen
		case 1:
			newLen = lower
		case 2:
			newLen = lower + int64(tp.Choose(int((volLen-lower)/8+1)))*8
			if newLen > volLen {
				newLen = volLen
			}
			// One time in four the file ends at an arbitrary byte, not on an 8-byte boundary: the length a file system
			// records for a torn extending write need not respect the application's frame alignment (a tail file
			// that was not preallocated can end part-way through a frame header; seeded C03i).
			if tp.Choose(4) == 3 && newLen-lower >= 8 {
				newLen -= 1 + int64(tp.Choose(7))
				d.Stats.LenUnaligned++
			}
		}
	}
	if newLen < volLen {
		d.Stats.LenShrunk++
	}
	nc := make([]byte, newLen)
	copy(nc, ino.Dur)
	for i, k := range keep {
		if !k {
			// lost: old durable bytes (or zeros) stay. Probe: stale non-zero bytes.
			a, b := blocks[i].a, blocks[i].b
			if b > int64(len(ino.Dur)) {
				b = int64(len(ino.Dur))
			}
			for x := a; x < b; x++ {
				if ino.Dur[x] != 0 {
					d.Stats.StaleBytesBehind++
					break
				}
			}
			continue
		}
		a, b := blocks[i].a, blocks[i].b
		if b > newLen {
			b = newLen
		}
		if a < b {
			copy(nc[a:b], ino.Vol[a:b])
		}
	}
	ino.Vol = nc
	ino.Dur = append([]byte(nil), nc...)
	ino.dirty = nil
}

// DurableNames lists the durable directory (for oracles).
func (d *Disk) DurableNames() []string {
	return d.Dur.names()
}
