// walsim is the single binary behind every check in MANIFEST.json.
package main

import (
	"encoding/json"
	"flag"
	"fmt"
	"hash/fnv"
	"os"
	"time"

	"verif/sim/engine"
)

func main() {
	if len(os.Args) < 2 {
		fmt.Fprintln(os.Stderr, "usage: walsim run|worker|check|replay ...")
		os.Exit(2)
	}
	engine.ProbeFS()
	switch os.Args[1] {
	case "run":
		cmdRun(os.Args[2:])
	case "worker":
		engine.WorkerMain(os.Args[2:])
	case "check":
		engine.CheckMain(os.Args[2:])
	case "replay":
		engine.ReplayMain(os.Args[2:])
	case "sig":
		cmdSig(os.Args[2:])
	case "raceworker":
		engine.RaceWorkerMain(os.Args[2:])
	case "c07worker":
		engine.C07WorkerMain(os.Args[2:])
	default:
		fmt.Fprintln(os.Stderr, "unknown command", os.Args[1])
		os.Exit(2)
	}
}

func cmdRun(args []string) {
	fs := flag.NewFlagSet("run", flag.ExitOnError)
	prop := fs.String("prop", "C05", "property")
	seed := fs.Uint64("seed", 1, "run seed")
	n := fs.Int("n", 1, "number of consecutive seeds")
	v := fs.Bool("v", false, "verbose")
	tier := fs.String("tier", "quick", "tier")
	tr := fs.Bool("trace", false, "dump scheduling decisions")
	shrink := fs.Bool("shrink", false, "minimise the first violation and print it")
	fs.Parse(args)
	engine.TraceAll = *tr
	bad := 0
	for i := 0; i < *n; i++ {
		r := engine.RunSeed(*prop, *seed+uint64(i), *tier)
		if *v || r.Viol != nil || r.HarnessErr != "" {
			b, _ := json.Marshal(r.Plan)
			fmt.Printf("seed=%d cfg=%+v\nplan=%s\n", r.Seed, r.Config, b)
			for _, l := range r.Log {
				fmt.Println("  ", l)
			}
			fmt.Printf("steps=%d seam=%d gens=%d fired=%v\n", r.Stats.Steps, r.Stats.SeamCalls, r.Stats.Gens, r.Stats.Fired)
		}
		if r.HarnessErr != "" {
			fmt.Println("HARNESS ERROR:", r.HarnessErr)
			bad++
		}
		if r.Viol != nil {
			fmt.Println("VIOLATION:", r.Viol.Error())
			bad++
			if *shrink {
				small := engine.Shrink(r.Replay(*prop), 20*time.Second)
				b, _ := json.Marshal(small.Plan)
				fmt.Printf("SHRUNK cfg=%+v\nplan=%s\ntape=%v\n", small.Config, b, small.Tape)
				for _, l := range small.Log {
					fmt.Println("  ", l)
				}
				small.Write("/tmp/shrunk.json")
				break
			}
		}
	}
	fmt.Printf("ran %d, bad %d\n", *n, bad)
}

// cmdSig prints one line per seed with a hash of everything observable about
// the run (event log, consumed tape, verdict, counters): the determinism
// self-test diffs these across processes and GOMAXPROCS values.
func cmdSig(args []string) {
	fs := flag.NewFlagSet("sig", flag.ExitOnError)
	prop := fs.String("prop", "C05", "property")
	seed := fs.Uint64("seed", 1, "first seed")
	n := fs.Int("n", 100, "number of seeds")
	fs.Parse(args)
	for i := 0; i < *n; i++ {
		r := engine.RunSeed(*prop, *seed+uint64(i), "quick")
		h := fnv.New64a()
		for _, l := range r.Log {
			h.Write([]byte(l))
			h.Write([]byte{0})
		}
		for _, v := range r.Tape {
			h.Write([]byte{byte(v), byte(v >> 8), byte(v >> 16), byte(v >> 24)})
		}
		if r.Viol != nil {
			h.Write([]byte(r.Viol.Class))
		}
		h.Write([]byte(r.HarnessErr))
		st := r.Stats
		th := fnv.New64a()
		for _, v := range r.Tape {
			th.Write([]byte{byte(v), byte(v >> 8), byte(v >> 16), byte(v >> 24)})
		}
		fmt.Printf("%s seed=%d sig=%016x steps=%d seam=%d sched=%016x tape=%d/%08x\n", *prop, *seed+uint64(i), h.Sum64(), st.Steps, st.SeamCalls, st.Sig, len(r.Tape), uint32(th.Sum64()))
	}
}
