package engine

import (
	"errors"
	"fmt"
	"io"
	"os"
	"sort"
	"syscall"

	"github.com/hashicorp/raft-wal/types"
	"verif/sim/sched"
	"verif/sim/simdisk"
	"verif/sim/simmeta"
)

type action int

const (
	actNone action = iota
	actCrashBefore
	actCrashAfter
	actCrashMid
	actErrBefore
	actErrAfter
	actErrMid
)

type seamCall struct {
	Kind string // ListDir Create Delete OpenReader OpenWriter WriteAt ReadAt Sync CloseFile Load CommitState GetStable SetStable CloseMeta
	File string
	Mut  bool // changes durable or volatile disk/meta state (crash-relevant)
}

// InjectedError marks an error produced by the fault injector.
type InjectedError struct {
	Call string
	Err  error
}

func (e *InjectedError) Error() string { return fmt.Sprintf("injected fault at %s: %v", e.Call, e.Err) }
func (e *InjectedError) Unwrap() error { return e.Err }

var errDead = errors.New("simulated process is dead")

// IsInjected reports whether err stems from an injected fault.
func IsInjected(err error) bool {
	var ie *InjectedError
	return errors.As(err, &ie)
}

// Gen is one process lifetime: the seam objects handed to the code under test.
type Gen struct {
	ex  *Exec
	sim *sched.Sim
	id  int

	openHandles int
	opens       int
	closes      int
	metaCloses  int
	metaLoads   int
	// reads counts ReadAt seam calls in the current API call (hang detection)
	reads int
	// maxRead is the largest buffer handed to ReadAt (allocation bound)
	maxRead int

	vfs        *simVFS
	callSeams  int // storage calls since the current API call began
	callCap    int
	pendingDel []pendingDeletes
	flushing   []*sched.Task
}

// flushDeletes applies the Delete calls a task has issued since its last other
// seam call, in sorted name order. The code under test iterates a Go map when
// it deletes segment files, so the order of its Delete calls is random; by
// collecting each run of deletes and executing it sorted, the yield, fault and
// crash points inside the run land on the same files in every execution of a
// seed (the WAL only logs Delete errors, so deferring the effect to the end of
// the run of calls changes nothing it can observe).
type pendingDeletes struct {
	t     *sched.Task
	names []string
}

func (g *Gen) flushDeletes() {
	t := g.sim.Current()
	if t == nil {
		return
	}
	for _, f := range g.flushing {
		if f == t {
			return // recursion guard per task: deleteNow re-enters the seam path
		}
	}
	var names []string
	for i := range g.pendingDel {
		if g.pendingDel[i].t == t {
			names = g.pendingDel[i].names
			g.pendingDel[i] = g.pendingDel[len(g.pendingDel)-1]
			g.pendingDel = g.pendingDel[:len(g.pendingDel)-1]
			break
		}
	}
	if len(names) == 0 {
		return
	}
	sort.Strings(names)
	g.flushing = append(g.flushing, t)
	defer func() {
		for i, f := range g.flushing {
			if f == t {
				g.flushing[i] = g.flushing[len(g.flushing)-1]
				g.flushing[len(g.flushing)-1] = nil
				g.flushing = g.flushing[:len(g.flushing)-1]
				break
			}
		}
	}()
	for _, n := range names {
		if err := g.vfs.deleteNow(n); err != nil {
			g.ex.probes.Add("delete_failed", 1)
		}
	}
}

func (g *Gen) enter(c seamCall) (action, bool) {
	if g.sim.Current() == nil {
		return actNone, false
	}
	if c.Kind != "Delete" {
		g.flushDeletes()
	}
	g.sim.MaybeYield("seam:" + c.Kind)
	ex := g.ex
	ex.stats.SeamCalls++
	if g.callCap > 0 {
		// one API call that issues more storage calls than half the bytes on the
		// disk plus a wide margin is scanning without end (each iteration comes
		// through here, so this is reached deterministically, long before the
		// wall-clock watchdog). Only harness tasks: they have a recovering wrapper.
		g.callSeams++
		if g.callSeams > g.callCap {
			if t := g.sim.Current(); t != nil && t.Harness {
				g.callSeams = 0
				panic(endlessScan{calls: g.callCap, kind: c.Kind, file: c.File})
			}
		}
	}
	ex.seamKinds.Add(c.Kind, 1)
	act := ex.faultFor(c)
	if act == actCrashBefore {
		g.crash(c, "before")
	}
	return act, true
}

// endlessScan is raised through the code under test into the wrapper of the
// API call that never ends.
type endlessScan struct {
	calls      int
	kind, file string
}

// beginCall resets the per-call storage-call budget.
func (g *Gen) beginCall() {
	g.callSeams = 0
	if g.ex.cfg.Profile == "C15" || g.ex.disk == nil {
		g.callCap = 0 // 64 MiB files: the wall-clock watchdog decides
		return
	}
	total := 0
	for _, n := range g.ex.disk.List() {
		if ino := g.ex.disk.Lookup(n); ino != nil {
			total += len(ino.Vol)
		}
	}
	g.callCap = total/2 + 200000
}

func (g *Gen) crash(c seamCall, when string) {
	g.ex.noteCrash(c, when)
	g.sim.Crash()
}

func (g *Gen) injected(c seamCall, errno syscall.Errno) error {
	return &InjectedError{Call: c.Kind + " " + c.File, Err: &os.PathError{Op: c.Kind, Path: c.File, Err: errno}}
}

// ---------------------------------------------------------------- VFS

type simVFS struct {
	g    *Gen
	disk *simdisk.Disk
}

var _ types.VFS = &simVFS{}

func (v *simVFS) ListDir(dir string) ([]string, error) {
	c := seamCall{Kind: "ListDir"}
	act, live := v.g.enter(c)
	if !live {
		return nil, errDead
	}
	if act == actErrBefore || act == actErrAfter || act == actErrMid {
		return nil, v.g.injected(c, syscall.EIO)
	}
	names := v.disk.List()
	if act == actCrashAfter {
		v.g.crash(c, "after")
	}
	return names, nil
}

func (v *simVFS) Create(dir, name string, size uint64) (types.WritableFile, error) {
	c := seamCall{Kind: "Create", File: name, Mut: true}
	act, live := v.g.enter(c)
	if !live {
		return nil, errDead
	}
	if act == actErrBefore {
		return nil, v.g.injected(c, syscall.ENOSPC)
	}
	ino, ok := v.disk.Create(name, size)
	if !ok {
		v.g.ex.probes.Add("create_collision", 1)
		v.g.ex.violate("segment-id-unique", "create-collided", "Create(%s) collided with an existing file: a segment file name was handed out twice", name)
		return nil, &os.PathError{Op: "open", Path: name, Err: syscall.EEXIST}
	}
	v.g.ex.noteCreate(name)
	if act == actCrashAfter || act == actCrashMid {
		v.g.crash(c, "after")
	}
	if act == actErrAfter || act == actErrMid {
		// created on disk (e.g. preallocation failed after open): caller sees an error
		return nil, v.g.injected(c, syscall.ENOSPC)
	}
	v.g.openHandles++
	v.g.opens++
	return &simFile{g: v.g, disk: v.disk, ino: ino, name: name, created: true, writable: true}, nil
}

func (v *simVFS) Delete(dir, name string) error {
	t := v.g.sim.Current()
	if t == nil {
		return errDead
	}
	v.g.vfs = v
	for i := range v.g.pendingDel {
		if v.g.pendingDel[i].t == t {
			v.g.pendingDel[i].names = append(v.g.pendingDel[i].names, name)
			return nil
		}
	}
	v.g.pendingDel = append(v.g.pendingDel, pendingDeletes{t: t, names: []string{name}})
	return nil
}

func (v *simVFS) deleteNow(name string) error {
	c := seamCall{Kind: "Delete", File: name, Mut: true}
	act, live := v.g.enter(c)
	if !live {
		return errDead
	}
	if act == actErrBefore {
		return v.g.injected(c, syscall.EIO)
	}
	if !v.disk.Unlink(name) {
		return &os.PathError{Op: "remove", Path: name, Err: syscall.ENOENT}
	}
	if act == actCrashMid {
		v.g.crash(c, "mid")
	}
	if act == actErrMid {
		// unlinked but the directory fsync failed
		return v.g.injected(c, syscall.EIO)
	}
	v.disk.SyncDir()
	if act == actCrashAfter {
		v.g.crash(c, "after")
	}
	if act == actErrAfter {
		return v.g.injected(c, syscall.EIO)
	}
	return nil
}

func (v *simVFS) open(kind, name string, writable bool) (*simFile, error) {
	c := seamCall{Kind: kind, File: name}
	act, live := v.g.enter(c)
	if !live {
		return nil, errDead
	}
	if act == actErrBefore || act == actErrAfter || act == actErrMid {
		return nil, v.g.injected(c, syscall.EIO)
	}
	ino := v.disk.Lookup(name)
	if ino == nil {
		return nil, &os.PathError{Op: "open", Path: name, Err: syscall.ENOENT}
	}
	if act == actCrashAfter {
		v.g.crash(c, "after")
	}
	v.g.openHandles++
	v.g.opens++
	return &simFile{g: v.g, disk: v.disk, ino: ino, name: name, writable: writable}, nil
}

func (v *simVFS) OpenReader(dir, name string) (types.ReadableFile, error) {
	f, err := v.open("OpenReader", name, false)
	if err != nil {
		return nil, err
	}
	return f, nil
}

func (v *simVFS) OpenWriter(dir, name string) (types.WritableFile, error) {
	f, err := v.open("OpenWriter", name, true)
	if err != nil {
		return nil, err
	}
	return f, nil
}

// ---------------------------------------------------------------- file handle

type simFile struct {
	g        *Gen
	disk     *simdisk.Disk
	ino      *simdisk.Inode
	name     string
	created  bool // returned by Create (production: *fs.File) vs Open* (bare *os.File)
	dirDone  bool
	writable bool
	closed   bool
}

func (f *simFile) WriteAt(p []byte, off int64) (int, error) {
	c := seamCall{Kind: "WriteAt", File: f.name, Mut: true}
	act, live := f.g.enter(c)
	if !live {
		return 0, errDead
	}
	if f.closed {
		return 0, &os.PathError{Op: "write", Path: f.name, Err: os.ErrClosed}
	}
	if !f.writable {
		return 0, &os.PathError{Op: "write", Path: f.name, Err: syscall.EBADF}
	}
	if act == actErrBefore {
		return 0, f.g.injected(c, syscall.EIO)
	}
	if act == actCrashMid || act == actErrMid {
		// a prefix (multiple of 8 bytes) reaches the file
		n := 0
		if len(p) >= 16 {
			n = (1 + f.g.ex.tape.Choose(len(p)/8-1)) * 8
		}
		f.ino.WriteAt(p[:n], off)
		if act == actCrashMid {
			f.g.crash(c, "mid")
		}
		f.g.ex.fired.Add("err_short_write", 1)
		return n, f.g.injected(c, syscall.ENOSPC)
	}
	f.ino.WriteAt(p, off)
	raceWrite()
	if act == actCrashAfter {
		f.g.crash(c, "after")
	}
	if act == actErrAfter {
		return len(p), f.g.injected(c, syscall.EIO)
	}
	if f.g.ex.buggifyEOF && off+int64(len(p)) == int64(len(f.ino.Vol)) {
		// legal: the code documents that a writer may report EOF when it wrote
		// right up to the end of the file
		return len(p), io.EOF
	}
	return len(p), nil
}

func (f *simFile) ReadAt(p []byte, off int64) (int, error) {
	c := seamCall{Kind: "ReadAt", File: f.name}
	act, live := f.g.enter(c)
	if !live {
		return 0, errDead
	}
	f.g.reads++
	if len(p) > f.g.maxRead {
		f.g.maxRead = len(p)
	}
	if f.closed {
		f.g.ex.probes.Add("read_on_closed_handle", 1)
		return 0, &os.PathError{Op: "read", Path: f.name, Err: os.ErrClosed}
	}
	if act == actErrBefore || act == actErrAfter || act == actErrMid {
		return 0, f.g.injected(c, syscall.EIO)
	}
	if off < 0 {
		return 0, &os.PathError{Op: "readat", Path: f.name, Err: errors.New("negative offset")}
	}
	n, eof := f.ino.ReadAt(p, off)
	raceRead()
	if f.g.ex.cfg.PostYield {
		// the read has filled p; the caller has not looked at it yet
		f.g.sim.MaybeYield("seam:ReadAt.done")
	}
	if eof {
		return n, io.EOF
	}
	return n, nil
}

func (f *simFile) Sync() error {
	c := seamCall{Kind: "Sync", File: f.name, Mut: true}
	act, live := f.g.enter(c)
	if !live {
		return errDead
	}
	if f.closed {
		return &os.PathError{Op: "sync", Path: f.name, Err: os.ErrClosed}
	}
	if act == actErrBefore {
		return f.g.injected(c, syscall.EIO)
	}
	f.ino.Sync()
	syncsDir := (f.created || f.g.ex.cfg.OWSyncsDir) && !f.dirDone
	if syncsDir {
		// production: the "first sync" flag is consumed before the directory
		// fsync is attempted
		f.dirDone = true
		if act == actCrashMid {
			f.g.crash(c, "mid")
		}
		if act == actErrMid {
			return f.g.injected(c, syscall.EIO)
		}
		f.disk.SyncDir()
	}
	if act == actCrashAfter || act == actCrashMid {
		f.g.crash(c, "after")
	}
	if act == actErrAfter || act == actErrMid {
		return f.g.injected(c, syscall.EIO)
	}
	if f.g.ex.conc != nil {
		// the event at which this batch became durable: an append may be visible
		// to readers from here on, never earlier
		f.g.ex.conc.syncStep = f.g.ex.tick()
	}
	return nil
}

func (f *simFile) Close() error {
	if f.g.sim.Current() == nil {
		return errDead
	}
	if f.closed {
		f.g.ex.probes.Add("double_close", 1)
		return &os.PathError{Op: "close", Path: f.name, Err: os.ErrClosed}
	}
	f.closed = true
	f.g.openHandles--
	f.g.closes++
	return nil
}

// ---------------------------------------------------------------- MetaStore

// metaInner is what the wrapper delegates to: simmeta or the real BoltMetaDB.
type metaWrap struct {
	g     *Gen
	inner types.MetaStore
}

var _ types.MetaStore = &metaWrap{}

func (m *metaWrap) Load(dir string) (types.PersistentState, error) {
	c := seamCall{Kind: "Load"}
	act, live := m.g.enter(c)
	if !live {
		return types.PersistentState{}, errDead
	}
	if act == actErrBefore || act == actErrAfter || act == actErrMid {
		return types.PersistentState{}, m.g.injected(c, syscall.EIO)
	}
	m.g.metaLoads++
	st, err := m.inner.Load(dir)
	if act == actCrashAfter {
		m.g.crash(c, "after")
	}
	return st, err
}

func (m *metaWrap) CommitState(st types.PersistentState) error {
	c := seamCall{Kind: "CommitState", Mut: true}
	act, live := m.g.enter(c)
	if !live {
		return errDead
	}
	if act == actErrBefore {
		return m.g.injected(c, syscall.EIO)
	}
	err := m.inner.CommitState(st)
	if err == nil {
		m.g.ex.noteCommit(st)
	}
	if act == actCrashAfter || act == actCrashMid {
		m.g.crash(c, "after")
	}
	if act == actErrAfter || act == actErrMid {
		// ambiguous commit: applied, but the caller is told it failed
		return m.g.injected(c, syscall.EIO)
	}
	return err
}

func (m *metaWrap) GetStable(key []byte) ([]byte, error) {
	c := seamCall{Kind: "GetStable"}
	act, live := m.g.enter(c)
	if !live {
		return nil, errDead
	}
	if act == actErrBefore || act == actErrAfter || act == actErrMid {
		return nil, m.g.injected(c, syscall.EIO)
	}
	return m.inner.GetStable(key)
}

func (m *metaWrap) SetStable(key, value []byte) error {
	c := seamCall{Kind: "SetStable", Mut: true}
	act, live := m.g.enter(c)
	if !live {
		return errDead
	}
	if act == actErrBefore {
		return m.g.injected(c, syscall.EIO)
	}
	err := m.inner.SetStable(key, value)
	if act == actCrashAfter || act == actCrashMid {
		m.g.crash(c, "after")
	}
	if act == actErrAfter || act == actErrMid {
		return m.g.injected(c, syscall.EIO)
	}
	return err
}

func (m *metaWrap) Close() error {
	if m.g.sim.Current() == nil {
		return errDead
	}
	m.g.metaCloses++
	return m.inner.Close()
}

// simMetaInner adapts simmeta.Store to types.MetaStore.
type simMetaInner struct {
	st     *simmeta.Store
	loaded bool
	closed bool
}

func (s *simMetaInner) Load(dir string) (types.PersistentState, error) {
	raceMeta()
	defer raceMeta()
	s.loaded = true
	return s.st.Load()
}
func (s *simMetaInner) CommitState(st types.PersistentState) error {
	raceMeta()
	defer raceMeta()
	if !s.loaded || s.closed {
		return errors.New("uninitialized")
	}
	return s.st.Commit(st)
}
func (s *simMetaInner) GetStable(key []byte) ([]byte, error) {
	raceMeta()
	defer raceMeta()
	if !s.loaded || s.closed {
		return nil, errors.New("uninitialized")
	}
	return s.st.Get(key), nil
}
func (s *simMetaInner) SetStable(key, value []byte) error {
	raceMeta()
	defer raceMeta()
	if !s.loaded || s.closed {
		return errors.New("uninitialized")
	}
	if len(key) == 0 {
		return errors.New("key required")
	}
	s.st.Set(key, value)
	return nil
}
func (s *simMetaInner) Close() error {
	raceMeta()
	defer raceMeta()
	s.closed = true
	return nil
}
