//go:build !race

package engine

func raceWrite() {}
func raceRead()  {}

func raceMeta() {}
