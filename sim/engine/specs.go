package engine

const compA = "real: wal (wal.go, state.go, codec.go, options.go), segment (writer, reader, filer, format, crc), metrics.AtomicCollector; " +
	"stub: fs.FS -> simulated disk (volatile/durable images, dirty ranges, pending directory ops), metadb.BoltMetaDB -> simulated atomic metadata store (JSON round trip like metadb); " +
	"scheduler: real goroutines, one runnable at a time, chosen from the tape at every seam call and verifhook point"

func init() {
	propSpecs["C05"] = &PropSpec{
		ID: "C05",
		Rule: "each run = a seeded program of 1-55 API calls (append incl. illegal batches, head/tail/all/middle/no-op DeleteRange, GetLog, stable ops, clean reopen, quiesce) over a swarm-drawn geometry " +
			"(segment size 64B-64KiB, first index 1..2^62, preallocation on/off), fault-free; after every mutating call FirstIndex/LastIndex/GetLog over the range and probes outside it are compared with the contiguous-log model, " +
			"again after every reopen. A case is non-trivial if it contains at least one acknowledged append and one truncation or reopen; distinct = distinct sequences of (op kind, model-state class before the op).",
		Components:     compA,
		Assumptions:    []string{"simulated disk is a faithful stand-in for fs.FS in the absence of faults (C07 differential check)", "no faults or crashes are injected in this profile"},
		RequiredProbes: []string{"clean_reopens", "truncations"},
		QuickS:         45, ThoroughS: 600,
	}
}
