package engine

const compA = "real: wal (wal.go, state.go, codec.go, options.go), segment (writer, reader, filer, format, crc), metrics.AtomicCollector; " +
	"stub: fs.FS -> simulated disk (volatile/durable images, dirty ranges, pending directory ops), metadb.BoltMetaDB -> simulated atomic metadata store (JSON round trip like metadb); " +
	"scheduler: real goroutines, one runnable at a time, chosen from the tape at every seam call and verifhook point"

const crashRule = "each run = a seeded workload (6-36 API calls: appends with rotation at segment sizes 64B-64KiB, head/tail/full truncations, stable sets, clean reopens, yield/quiesce windows for the background rotation) with 1-4 crashes, " +
	"each addressed to the k-th (mutating) seam call - optionally of a given kind: WriteAt, Sync, CommitState, Create, Delete, SetStable - inside one operation's window (which includes the background rotation and, nested to depth 3, the recovery Open), " +
	"landing before / after / in the middle of the call; kind = process crash (volatile image kept) or power loss (every un-fsynced granule of 8/64/512/4096 bytes, the file length and every pending directory entry independently kept or lost, subset drawn from structured patterns). " +
	"After every crash the WAL is reopened and FirstIndex/LastIndex/full read-back must equal the definite operations applied in order with each in-flight operation applied in full or not at all; the run ends with one more clean reopen. " +
	"A case is non-trivial if at least one crash fired; distinct = distinct sets of (crash kind, seam kind, before/after/mid, task that crashed, op kind in whose window, torn-pattern class, recovered-state class, number of candidate states)."

func crashSpec(id string, extra string, probes []string) *PropSpec {
	return &PropSpec{
		ID:             id,
		Rule:           crashRule + extra,
		Components:     compA,
		Assumptions:    []string{"the simulated disk models exactly the durability contract of fs/ (file fsync makes that inode's data+length durable; directory entries become durable at the first Sync of a handle or at Delete) - shown by the C07 checks", "bbolt commits are atomic and durable on return (dependency, trusted); the metadata store survives every crash as committed", "torn writes are modelled at >= 8-byte granularity without garbling (README assumption)"},
		RequiredProbes: probes,
		RequiredFired:  []string{"crash", "power", "torn_blocks_lost", "torn_blocks_kept", "dirops_lost"},
		QuickS:         50, ThoroughS: 900,
	}
}

func init() {
	bigBatch := " One run in 16 is a big-batch run: segments of 1-8 MiB, batches of 2-5 entries of 70 KiB-2.2 MiB (0.2-5 MiB per batch), each hit by a power loss (or process crash) before / after / in the middle of its write or fsync, sector-sized granules."
	errVariant := " One run in 8 reaches the reopen through a failed call instead of a crash (an error chain of the C10 generator: one injected I/O error inside an append / sealing append / truncation / background rotation, one or two follow-up writes, reopen, append, reopen)."
	propSpecs["C01"] = crashSpec("C01", bigBatch+errVariant, []string{"recoveries"})
	propSpecs["C02"] = crashSpec("C02", " C02 emphasis: 90% power losses, 8-byte granules, large segments so that repeated crash/recover/append cycles hit the same tail file and stale frames of earlier torn batches lie behind the new tail (probe stale_bytes_behind). One run in 8 reaches the reopen through an injected I/O error (error chains of the C10 generator) instead of a crash."+bigBatch, []string{"recoveries"})
	propSpecs["C02"].RequiredFired = append(propSpecs["C02"].RequiredFired, "stale_bytes_behind", "files_torn")
	propSpecs["C03"] = crashSpec("C03", " C03 adds after every recovery a usability script (append at Last+1, a second append, stable set, head and tail DeleteRange, clean Close/Open, all compared with the model); refusal of a legal call, a deadlock or a step-budget overrun is a violation."+errVariant, []string{"recoveries", "usability_scripts"})
	propSpecs["C04"] = crashSpec("C04", " C04 emphasis: crashes targeted at the seam calls inside DeleteRange (ForceSeal write/sync, CommitState, Create, finalizer Delete) and in the appends that re-use truncated indexes. A quarter of the runs are two-crash truncation chains with a fixed skeleton and drawn sizes / positions / fault placement: recover-then-truncate (an append killed between write and fsync with the page cache surviving; recovery shows the batch; a head truncation reaching into it; power loss before the next write) and torn-seal (a tail truncation hit by a power loss inside its seal writes or metadata commit; re-appends at the truncated indexes; a second crash)."+bigBatch, []string{"recoveries", "truncations"})
	propSpecs["C13"] = crashSpec("C13", " C13 oracles: after every returned DeleteRange, every Open and at quiescent points the sorted directory listing equals the file names of the segments in committed metadata; every Create succeeds without colliding; a segment ID is bound to one BaseIndex for the lifetime of the directory; committed NextSegmentID never decreases and exceeds every ID ever created; a Create that collides with an existing file is itself a violation. A quarter of the runs have concurrent readers pinning old states instead of crashes, a quarter have injected I/O errors instead of crashes (the C10 generator: a failed creation / deletion / metadata commit, also one whose effect landed, must not lead to an ID or name being handed out twice; the directory listing is judged again after the next Open).", []string{"recoveries", "truncations"})
	propSpecs["C10"] = &PropSpec{
		ID: "C10",
		Rule: "each run = a seeded workload (8-40 API calls) with 1-3 injected I/O errors, each at the k-th seam call (optionally of a given kind: WriteAt, Sync, CommitState, Create, Delete, ListDir, OpenReader, OpenWriter, ReadAt, Load, SetStable, GetStable) inside one operation's window incl. the background rotation and Open; " +
			"a third of the sequential runs are error chains (fixed skeleton, everything else drawn): 1-3 small appends, optionally a sealing append so that a rotation is pending, ONE failing call - sealing append, append, tail / head / full truncation or the background rotation's own calls - with the error at its 1st-3rd WriteAt / Sync / CommitState / Create, then a retry of the same call or one or two other writes, reopen, append, reopen; " +
			"fail-before (no effect), fail-after (effect applied, caller told it failed: failed fsync whose data landed, ambiguous metadata commit) or partial (short write; file fsynced but directory fsync failed; unlinked but directory fsync failed); transient or persistent until lifted; pairs in consecutive ops. " +
			"In-process after every call the WAL must show exactly the acknowledged appends (a failed append invisible; a failed truncation applied or not); after the final clean reopen every failed call is applied in full or not at all and no acknowledged entry is lost or altered. " +
			"A sixth of the runs are the concurrent half: the C06 workload (writer + 1-4 readers, schedule from the tape) in which up to three of the writer's appends fail with a write or fsync error (before / after / short); a reader that is handed an entry of a StoreLogs call that failed - also while that call is still rolling back - is a violation (failed-append-invisible). Non-trivial = at least one fault fired; distinct = distinct sets of (seam kind, before/after/mid, persistent, op kind in whose window).",
		Components:     compA,
		Assumptions:    []string{"error values are ordinary *os.PathError (EIO/ENOSPC)", "a call that returns an error without an injected fault in a process lifetime that already saw one is counted as refused, not as a violation (the property does not promise liveness after I/O errors)"},
		RequiredProbes: []string{"clean_reopens"},
		RequiredFired:  []string{"err", "err_before_Sync", "err_after_Sync", "err_after_CommitState", "err_before_CommitState", "err_before_WriteAt", "err_short_write", "err_before_Create", "err_before_Delete"},
		QuickS:         50, ThoroughS: 900,
	}
	propSpecs["C06"] = &PropSpec{
		ID: "C06",
		Rule: "each run = one writer task executing 7-40 operations (appends with rotation, head / tail / full truncation, re-append of different content at the truncated indexes, base-index resets after emptying) and 1-4 reader tasks issuing GetLog / FirstIndex / LastIndex (indexes drawn at both edges, inside, just outside and in the previous generation); the scheduler picks the next task from the tape at every seam call (each ReadAt / WriteAt / Sync / CommitState / Create / Delete) and hook point (after each closed-check, between state load and refcount acquire, after the state store, offsets-published-but-unwritten, before every lock and channel wait). " +
			"The history (invoke/return stamped with the global event sequence; an append's invocation is the event at which its fsync returned) is checked by a direct interval oracle (each read's result must hold in a log state current during its interval; an entry present throughout must be returned intact; a non-not-found error only for an index a truncation removed during the read) and by porcupine v1.3.0 against the log model. " +
			"Non-trivial = at least one read overlapped a writer operation; distinct = distinct interleaving hashes (sequence of (task, point) at decisions with >= 2 runnable tasks).",
		Components:     compA + "; linearizability checker: porcupine v1.3.0",
		Assumptions:    []string{"the data-race clause is decided by the race stage (coverage.race_stage_*): the detector only sees the accesses the explored schedules perform, and the edges of the simulated storage mirror package syscall (pread after pwrite) and bbolt's locks", "histories are bounded (<= ~120 operations) so porcupine terminates; Unknown verdicts are counted, never reported"},
		RequiredProbes: []string{"reads_overlapping_a_write", "porcupine_ok", "history_ops", "truncations"},
		QuickS:         50, ThoroughS: 900,
		Workers: 11, RaceWorkers: 5,
	}
	propSpecs["C11"] = &PropSpec{
		ID: "C11",
		Rule: "each run = a valid directory produced by a seeded fault-free plan (4-18 operations: appends with rotation, truncations, reopens), closed, then ONE damage drawn from the tape: bit flip / zero run / truncation to any length incl. below the 32-byte header / garbage extension / frame length-field edit (0xffffffff, 64MiB+1, file size, ...) / frame-type edit / index-entry edit / CRC edit / header field edit / whole-file random bytes / another segment's file / file deletion / garbage right after the last commit, at positions weighted to headers, frame headers, commit frames, the index block and payloads, on tail and sealed segments; or a tampered metadata record (invalid JSON, reordered list, IndexStart / MinIndex / MaxIndex / BaseIndex / Codec / SealTime / NextSegmentID edits). " +
			"Then Open, FirstIndex/LastIndex, GetLog over the whole range, Close, Filer.DumpLogs, Filer.DumpSegment of every file, and BinaryCodec.Decode of every payload found plus structural mutations of valid encodings (strict prefix, overflowing varint, length prefix past the buffer, random bytes). " +
			"Oracles: no panic; bounded work (file reads per call <= 4*bytes/8+2000, so an endless scan is a deterministic overrun); bounded allocation (largest ReadAt buffer <= max(files, MaxEntrySize)+64KiB; TotalAlloc growth of Open/Dump bounded); Open must fail when a sealed segment is missing, shorter than its header or carries another segment's header; a failed Open leaves zero open handles and a closed metadata store; Decode errors on structural damage. " +
			"Non-trivial = damage applied; distinct = (damage kind, sealed/tail, outcome of Open).",
		Components:     compA,
		Assumptions:    []string{"a flipped bit inside an entry payload legitimately decodes to a different log (the format has no per-record checksum; README says so): no error is demanded there", "the 'second Open does not block' clause is checked as 'metadata store closed + zero handles after a failed Open' on the simulated store; the real bolt flock is exercised by the C12 codec-identity runs"},
		RequiredProbes: []string{"open_rejected_damage", "open_accepted_damage", "payloads_decoded", "decode_mutations"},
		RequiredFired:  []string{"corrupt_bitflip", "corrupt_truncate", "corrupt_length-field", "corrupt_delete-file", "corrupt_other-segments-file", "corrupt_header-field", "corrupt_index-entry"},
		QuickS:         45, ThoroughS: 600,
	}
	propSpecs["C12"] = &PropSpec{
		ID: "C12",
		Rule: "two kinds of runs. (a) aliasing: one writer and 1-4 reader tasks as in C06, entries on both sides of the 64 KiB pooled read buffer; every log returned by GetLog is checksummed at return and re-checksummed at the end of the run, after later reads (of this and other tasks, interleaved by the scheduler) recycled the pooled buffers; every second sequential GetLog and every odd-numbered reader decodes into one re-used raft.Log value and retains a shallow copy of the result, which must not change when a later read decodes into the same destination; a concurrent GetLog that returns a log which was never stored at that index in ANY state of the history (assembled from a recycled buffer) is a violation of its own (whether a correct entry was returned at the right time is C06's question and not judged here). In half of all runs each ReadAt is followed by a second yield point (the bytes are in the caller's buffer, the caller has not looked at them yet). (b) codec identity: sequential programs on a directory created with the default or a custom codec ID (2^16, 2^16+1, 2^40, MaxUint64), with codec probes between operations and after a crash: Open with a different custom ID and with the default codec must be refused and leave nothing open or locked (real bolt flock probed with a timeout in a third of the runs), a reserved ID (1..65535) must be rejected before any storage call, the same codec must reopen and read back the model's entries. " +
			"By-product: every entry flowing through any run is compared field by field (generator biased to varint boundaries, all LogTypes incl. 255, nil vs empty slices, 64 KiB neighbourhood, zero time / zone offsets). The isolated Encode/Decode equality is a pure function and is not decided by simulation. " +
			"Non-trivial = a read overlapped a write (a) or a codec probe ran (b); distinct = interleaving hashes / op-sequence signatures.",
		Components:     compA + "; a third of the codec-identity runs use the real metadb.BoltMetaDB + bbolt on tmpfs",
		Assumptions:    []string{"pure Encode->Decode equality over all field values is not a simulation question; it is covered only as a by-product"},
		RequiredProbes: []string{"wrong_codec_refused", "reserved_codec_rejected", "same_codec_reopened", "reads_overlapping_a_write", "append_ge_64KiB_acked"},
		QuickS:         60, ThoroughS: 600,
	}
	clusterRule := "each run = a simulated cluster of 2-4 nodes, each a verifier.NewLogStore over an in-memory reference store behind a seam wrapper (every inner call a yield point; GetLog can return an altered copy), driven by a small model of raft log replication that only generates histories raft could produce: leader appends (checkpoints at tape-chosen places, bootstrap configuration entry at index 1), replication of the leader's stored entries to a follower in batch splits of 1-5, follower lag, leadership change to any node whose log is at least as up to date as a majority's (new leader appends a no-op; followers truncate their conflicting suffix before appending), snapshot install on followers behind the leader's first index, middleware restart (new LogStore over the same inner store), head truncation; truncations wait until no verification of the node is pending (the quantifier's side condition). The verifier goroutines are scheduled by the simulator. Only committed entries (held by a majority) are compacted away and a node with an empty log resumes after its snapshot. Ground truth (what each leader checksummed per checkpoint, what each node stores) is kept by the driver and every delivered VerificationReport is judged against it. A third of the runs inject errors: the k-th inner StoreLogs / DeleteRange / IsCheckpointFn call, or the k-th GetLog / FirstIndex the verifier goroutine or the driver issues, fails before reaching the store; a failed leader append is retried with the same log values (checkpoint metadata already written into them), with fresh copies, or abandoned; a failed call must return the injected error, change nothing and account nothing, a verification whose read failed must report that error and never a checksum mismatch, and later reports are judged as before. An oracle is only reported by the property that owns it (C16 no-false-alarm; C17 detects-divergence, blame-correct; C18 everything else); a foreign oracle that fails ends the run without a verdict. "
	propSpecs["C16"] = &PropSpec{
		ID:             "C16",
		Rule:           clusterRule + "C16: no corruption is injected; a node that stores the whole range exactly as checksummed must get a report without error; a node lacking part of the range must get ErrRangeMismatch; whenever the inner store answered not-found to a read of the verification itself, the report must not be a checksum mismatch - this also in the half of the runs (noQuiet, as in C18) where truncations cut ranges whose reports are still queued, which are judged by this rule only. In a quarter of the C16 / C17 runs compaction does not wait for the verifier but stays strictly below every queued or running range (ranges unmodified, all judgements valid). Non-trivial = at least one checkpoint; distinct = interleaving hash + (nodes, leader changes).",
		Components:     "real: verifier (store.go, verifier.go, metrics.go), metrics.AtomicCollector; harness: replication driver, in-memory inner stores; scheduler adopts each runVerifier goroutine",
		Assumptions:    []string{"inner stores are the in-memory reference store (the WAL as inner store is exercised by the other properties)", "reports whose leader no longer held its whole range when writing the checkpoint are not judged (counted as reports_truth_unknown)"},
		RequiredProbes: []string{"checkpoints", "reports_clean_range", "reports_range_not_held", "conflict_truncations", "leader_changes", "middleware_restarts", "head_truncations"},
		QuickS:         40, ThoroughS: 600,
	}
	propSpecs["C17"] = &PropSpec{
		ID:             "C17",
		Rule:           clusterRule + "C17: exactly one mutation per run - in flight (the copy handed to one follower's StoreLogs differs: data bit flip / truncate / extend, term, type, extensions) or at rest (a node's inner store returns one entry altered on read, incl. index, or two neighbouring entries in each other's place) - on leader or follower, at a tape-chosen position of a range that a later checkpoint covers; index-1 configuration entries excluded. A node that fully holds the range must get ErrChecksumMismatch; the in-flight wording only if the node really stored something else than the leader checksummed. Non-trivial = the mutation reached a verified range.",
		Components:     "real: verifier; harness: replication driver with mutation faults",
		Assumptions:    []string{"64-bit FNV collisions are not expected at this sample size"},
		RequiredProbes: []string{"checkpoints", "reports_divergent_range", "mutation_reached_a_verified_range"},
		RequiredFired:  []string{"mutation_in_flight_term", "mutation_in_flight_type", "mutation_in_flight_extensions", "mutation_at_rest_term", "mutation_at_rest_index", "mutation_at_rest_swap"},
		QuickS:         40, ThoroughS: 600,
	}
	propSpecs["C18"] = &PropSpec{
		ID:             "C18",
		Rule:           clusterRule + "C18: ReportFn is a harness gate kept blocked for tape-chosen spans (across 0..n further checkpoints), the verifier is parked inside its reads of the inner store; transparency probes compare FirstIndex / LastIndex / GetLog / stored entries through the middleware with the inner store and submit a checkpoint with foreign Extensions (must be refused, nothing stored). Oracles: no task may block forever / exceed the step budget while a gate is closed (StoreLogs completes); after the gates open and the system is quiescent #checkpoints == #reports + dropped_reports, checkpoints_written and ranges_verified agree; every dropped checkpoint's range is covered by the SkippedRange (or lies inside the range) of the first report triggered after the drop - which checkpoints were queued and which dropped is read off the verifier's own sent / dropped notifications in order. In half of the runs (noQuiet) truncations - conflicting suffix, snapshot install, compaction - do NOT wait for the node's verifier to be idle, so a DeleteRange meets reports that are queued or held by the blocked ReportFn; there reports are not judged against ground truth (C16's side condition), only the accounting, SkippedRange, transparency and no-blocking oracles apply.",
		Components:     "real: verifier; harness: replication driver, gates",
		Assumptions:    []string{"bounded liveness is measured in scheduler steps, not wall time"},
		RequiredProbes: []string{"checkpoints", "reportfn_blocked", "reports_dropped", "skipped_range_named", "transparency_probes", "foreign_extensions_refused"},
		QuickS:         40, ThoroughS: 600,
	}
	propSpecs["C07"] = &PropSpec{
		ID: "C07",
		Rule: "configuration B - nothing stubbed: fs/, metadb/, bbolt and the kernel are real (tmpfs directory). Three kinds of seeded runs: (trace, 50%) a plan of 4-17 operations (appends with rotation, head/tail/full truncations, stable sets, reopens; segment sizes 512 B-64 KiB, and in 1 of 12 trace runs production-like geometry: a 12 MiB segment first filled by ~45 batches of 6000-9000 tiny entries, so that the sealing batch carries an index frame of more than 1 MiB) executed by a child process through wal.Open(dir) with production defaults under `strace -f -y`; every API call is bracketed by marker syscalls and the trace is judged by per-file ordering rules relative to the acknowledgement markers: R1 no pwrite64 to a segment file after its last fsync at a StoreLogs ack; R2 a segment file created (or, since fix 63643b0, opened read-write) in this process and written by an acknowledged append has an fsync of the directory in between; R3 every unlink of a segment file is followed by a directory fsync before the enclosing call's ack; R4 segment files are created with O_EXCL and preallocated before the first write (plus a VFS-level probe: Create yields `size` zero bytes and a second Create fails); R5 wal-meta.db appears only by rename from the temporary name after its writes were fsynced, followed by a directory fsync before Open's ack. (diff, 33%) one random sequence of 10-40 VFS calls (create / open / write / read at and beyond EOF / sync / delete with open handles / list + sizes) applied to fs.FS and to the simulated disk: results, error classes, sizes and bytes must agree - the stub-fidelity proof for configuration A. (kill, 17%) the child runs the plan over pass-through wrappers and SIGKILLs itself before the k-th fs/metadb call (incl. during the very first Open while wal-meta.db is created); a second process must open the directory, find every acknowledged entry and stable key, and accept an append. " +
			"Non-trivial = every run; distinct = (mode, files created, files unlinked, opens) / kill point bucket.",
		Components:     "everything real (wal, segment, fs, metadb, bbolt, kernel on tmpfs); recording seam = syscall boundary (strace 'trace' runs), process boundary (kill runs)",
		Assumptions:    []string{"tmpfs executes fsync as a no-op but the syscalls are issued and traced identically", "the relative order of syscalls of the rotation thread and the caller varies between executions; R1-R5 are per-file rules relative to markers issued by the acknowledged goroutine, which do not depend on it", "power loss is not exercised here (that is what configuration A's simulated disk is for); kill runs cover process crashes only"},
		RequiredProbes: []string{"trace_runs", "diff_runs", "kill_runs", "create_probes", "trace_wal_created", "trace_wal_unlinked", "trace_dir_fsync", "trace_meta_renamed", "trace_acks_StoreLogs", "trace_wal_opened_rw"},
		RequiredFired:  []string{"sigkill"},
		QuickS:         45, ThoroughS: 600,
	}
	propSpecs["C19"] = &PropSpec{
		ID: "C19",
		Rule: "each run = one CopyLogs (80%) or CopyStable (20%) call. CopyLogs: source of 0,1,2,3,5,8,13,40 or 120 entries (payload 0-5000 bytes, extensions) starting at 1, 2, 1000, 2^32-2 or 2^40; batchBytes 0, 1, around one entry, 200, 5000, 2^30; source and destination each one of {real WAL over the simulated disk, real raft-boltdb store on tmpfs, in-memory reference store}; progress channel nil / buffered / unbuffered and never drained; every store call is a seam: in a quarter of the runs the context is cancelled before store call k, in a quarter store call k returns an I/O error. " +
			"Oracles: without cancellation/fault the destination equals the source (First, Last, every field) and an empty source yields nil + empty destination; with cancellation the error is the context's and the destination holds a prefix of the source; an injected error is returned (never swallowed) and leaves a prefix; the progress channel is closed on every return path. CopyStable: the three raft keys and extra keys arrive (a third of the runs use stores with separate key spaces for byte and uint64 values and key names that occur in both lists; both values must arrive); pre-cancelled context returns its error. " +
			"Non-trivial = every run; distinct = (store pairing, size bucket, batchBytes, channel kind, mode).",
		Components:     "real: migrate, wal+segment (WAL stores over the simulated disk), raft-boltdb v2 (tmpfs); harness: in-memory reference store, seam wrapper around both stores",
		Assumptions:    []string{"migrate's 1 ms best-effort time.After on a blocked progress channel is left real (no property depends on its outcome)"},
		RequiredProbes: []string{"full_copy_checked", "prefix_checked", "empty_source_copied", "progress_closed_checked", "stable_copied"},
		QuickS:         40, ThoroughS: 400,
	}
	propSpecs["C14"] = &PropSpec{
		ID: "C14",
		Rule: "each run = a seeded WAL with 1-4 batches (so several segments exist and a rotation may be pending), then a tape-chosen set of racing tasks - an appender (2-6 batches), 0-3 readers (GetLog/FirstIndex/LastIndex), a stable-store client - and the closer, which calls Close after a tape-chosen number of scheduling steps; the scheduler orders Close's flag swap, lock acquisition, state swap and finalizer against every other task's hook points (after each closed-check, between state load and reference, before each lock / rotation wait) and seam calls. " +
			"Oracles: every racing call returns ErrClosed or a result correct for the model (acknowledged appends durable after the next Open); no panic; no deadlock / step overrun; after Close every method returns ErrClosed, a second Close is a no-op without seam calls, the rotation goroutine has exited, open handles reach zero, the MetaStore was closed exactly once. " +
			"Non-trivial = Close overlapped at least one in-flight call; distinct = distinct interleaving hashes.",
		Components:     compA,
		Assumptions:    []string{"data races are not decided here (DESIGN.md section 10)"},
		RequiredProbes: []string{"close_races", "racing_calls_got_errclosed", "protected_entries_checked"},
		QuickS:         45, ThoroughS: 600,
		Workers: 12, RaceWorkers: 4,
	}
	propSpecs["C09"] = &PropSpec{
		ID: "C09",
		Rule: "runs = a sixth injected-I/O-error histories of the C10 generator with extra reopens (what a failed, rolled-back append / seal / truncation leaves in the file must never end up inside the committed part; rule: nothing is committed behind an index frame), the rest 60% fault-free programs (appends with every padding residue and batch shape, rotation at segment sizes 64B-64KiB, head/tail/full truncations, reopens, quiesce points) and 40% crash/re-append histories of the C01 generator; at every quiescent point and after every Open each segment file named by committed metadata is decoded by the README-only decoder (CRC verified per batch), re-encoded by the README-only encoder and compared byte-for-byte up to its last commit; header vs file name vs metadata; 8-byte alignment; live entry payloads vs the model's encodings; sealed: index frame offsets == entry frame offsets and IndexStart == index payload offset; crash-free histories: commit frames exactly at acknowledged batch boundaries. " +
			"Non-trivial = at least one sealed segment checked or a crash fired; distinct = distinct op-sequence/state-class signatures (fault-free) or crash signatures.",
		Components:     compA + "; refformat: independent encoder/decoder written from README.md only (shares no code with package segment)",
		Assumptions:    []string{"README ambiguity: the first batch's CRC includes the 32-byte file header (written in the same first write); golden directories pin the pinned tree's behaviour", "entry payload bytes are produced by the codec (C12's business) and treated as opaque"},
		RequiredProbes: []string{"format_segments_checked", "format_sealed_checked", "format_batches_checked", "clean_reopens", "truncations"},
		QuickS:         45, ThoroughS: 600,
	}
	propSpecs["C20"] = &PropSpec{
		ID: "C20",
		Rule: "each run = a fault-free program (appends incl. refused batches, head/tail/full/middle/no-op truncations weighted to ones that empty the log, hit an empty tail or repeat, GetLog, stable ops, reopens) (a quarter of the runs: the C10 error-fault generator instead - there, and for the rest of such a run, only log_appends / log_entries_written / log_entry_bytes_written are judged, at every quiescent point: a StoreLogs that failed appended nothing, the other totals are ambiguous for a failed call) executed with metrics.NewAtomicCollector(wal.MetricDefinitions) (panics on an undeclared name); at every quiescent point the counters must equal the model's totals: log_appends, log_entries_written, log_entry_bytes_written (encoded through the codec), log_entries_read (GetLog calls), stable_gets/sets, head/tail_truncations (entries the model removed), segment_rotations (metadata commits that seal the tail outside a caller's DeleteRange/StoreLogs). " +
			"Non-trivial = an acknowledged append and a truncation or reopen; distinct = distinct op-sequence/state-class signatures.",
		Components:     compA,
		Assumptions:    []string{"the static 'every emitting call site' half is measured as reach (hook_points_passed / probes), not decided", "verifier metrics are covered by the C16-C18 checks"},
		RequiredProbes: []string{"truncations", "clean_reopens"},
		QuickS:         40, ThoroughS: 600,
	}
	propSpecs["C15"] = &PropSpec{
		ID: "C15",
		Rule: "each run = 2-7 batches of 1-3 entries where one entry per batch has a boundary size (0-24, 64KiB-40..64KiB+16, segment size +/- frame overhead, 100000, 1MiB, and - rarely, more often in the thorough tier - 64MiB-64..64MiB+32 payload bytes) at a random batch position, crossed with segment sizes 64B..4MiB and preallocation on/off; interleaved with clean reopens and power losses right after the acknowledgement; 1 run in 60: one batch of 2-3 entries of ~33 MiB each (every entry legal, the batch larger than a segment plus one maximum-size entry) followed by Close / process crash / power loss before or while the rotation commits, then reopen. Oracle: an acknowledged entry reads back identical immediately, after reopen and after power loss; refusal is allowed, acknowledge-then-unreadable is not. " +
			"Non-trivial = an entry >= 64KiB-40 or >= the segment size was acknowledged; distinct = distinct op-sequence/state-class signatures.",
		Components:     compA,
		Assumptions:    []string{"64 MiB cases are sampled rarely (memory/time); the quick tier may contain none - the probes say how many ran"},
		RequiredProbes: []string{"append_ge_64KiB_acked", "append_larger_than_segment_acked"},
		QuickS:         60, ThoroughS: 900,
	}
	propSpecs["C08"] = &PropSpec{
		ID: "C08",
		Rule: "each run = 6-36 operations mixing Set/SetUint64/Get (raft keys, binary keys, empty / nil / 1B-60KiB values, 1B-32KiB keys) with appends, truncations and clean reopens, plus 0-3 process crashes at seam calls inside Sets, appends, truncations and the background rotation, and 0-2 injected meta-store errors on SetStable (fail-before / fail-after) and GetStable; a third of the non-empty values recur (same bytes for the same key and size); a quarter of the runs are the concurrent half: the C06 workload (writer with rotations and truncations, 1-4 readers) with one or two stable-store client tasks beside it (Set and SetUint64 on keys of their own, so two Sets may be in flight at once) whose Gets must return their own latest acknowledged Set; backend = the real metadb.BoltMetaDB (two buckets, one write txn per Set/CommitState) on a tmpfs directory behind the seam wrapper. Oracle: stable model after every Get and after every reopen/recovery (in-flight Set applied or not), log model untouched by stable ops and vice versa. " +
			"Non-trivial = a crash fired or (acknowledged append and reopen); distinct = crash signatures / op-sequence signatures.",
		Components:     "real: wal, segment, metadb.BoltMetaDB + bbolt (on tmpfs); stub: fs.FS -> simulated disk; power loss of bbolt's own file is not simulated (bbolt trusted)",
		Assumptions:    []string{"bbolt's crash safety is trusted; only process crashes (between MetaStore calls) are injected for the metadata file"},
		RequiredProbes: []string{"clean_reopens", "recoveries", "seam_SetStable", "seam_GetStable", "concurrent_stable_sets", "concurrent_stable_gets"},
		RequiredFired:  []string{"err_before_SetStable", "err_after_SetStable", "err_before_GetStable", "crash_mid_SetStable"},
		QuickS:         45, ThoroughS: 600,
	}
	propSpecs["C05"] = &PropSpec{
		ID: "C05",
		Rule: "each run = a seeded program of 1-55 API calls (append incl. illegal batches, head/tail/all/middle/no-op DeleteRange, GetLog, stable ops, clean reopen, quiesce) over a swarm-drawn geometry " +
			"(segment size 64B-64KiB, first index 1..2^62, preallocation on/off), fault-free; after every mutating call FirstIndex/LastIndex/GetLog over the range and probes outside it are compared with the contiguous-log model, " +
			"again after every reopen. A case is non-trivial if it contains at least one acknowledged append and one truncation or reopen; distinct = distinct sequences of (op kind, model-state class before the op).",
		Components:     compA,
		Assumptions:    []string{"simulated disk is a faithful stand-in for fs.FS in the absence of faults (C07 differential check)", "no faults or crashes are injected in this profile"},
		RequiredProbes: []string{"clean_reopens", "truncations"},
		QuickS:         45, ThoroughS: 600,
	}
}
