package engine

// formatOracle (C09) is implemented in refcheck.go once refformat exists.
func (ex *Exec) formatOracle(where string) {}
