package engine

import (
	"bytes"
	"fmt"

	wal "github.com/hashicorp/raft-wal"
	"github.com/hashicorp/raft-wal/segment"
	"verif/sim/refformat"
)

// formatOracle (C09): at quiescent points every segment named by the committed
// metadata must be reproduced byte-for-byte, up to its last commit, by the
// README-only encoder, agree with file name and metadata, carry the model's
// entries, and (sealed) an index frame addressed by IndexStart.
func (ex *Exec) formatOracle(where string) {
	if !ex.on("format") {
		return
	}
	st, ok := ex.persistedState()
	if !ok {
		return
	}
	cur := ex.or.Definite()
	found := 0
	for _, si := range st.Segments {
		name := refformat.FileName(si.BaseIndex, si.ID)
		if name != segment.FileName(si) {
			ex.violate("format", "file-name", "%s: file name %q, README says %q", where, segment.FileName(si), name)
			return
		}
		sealed := !si.SealTime.IsZero()
		ino := ex.disk.Lookup(name)
		if ino == nil {
			if sealed {
				ex.violate("format", "sealed-file-missing", "%s: sealed segment %s has no file", where, name)
				return
			}
			continue
		}
		seg := refformat.Decode(ino.Vol)
		ex.probes.Add("format_segments_checked", 1)
		if seg.CommittedLen == 0 {
			if sealed {
				ex.violate("format", "sealed-without-commit", "%s: sealed segment %s has no valid commit (%s)", where, name, seg.StopReason)
				return
			}
			continue
		}
		h := seg.Header
		if h.Magic != refformat.Magic || h.Vsn != 0 || h.Reserved != [3]byte{} || h.BaseIndex != si.BaseIndex || h.SegmentID != si.ID || h.Codec != si.Codec {
			ex.violate("format", "header-mismatch", "%s: %s header %+v does not agree with README/name/metadata (base %d id %d codec %d)", where, name, h, si.BaseIndex, si.ID, si.Codec)
			return
		}
		img := refformat.Encode(seg)
		if !bytes.Equal(img, ino.Vol[:seg.CommittedLen]) {
			d := 0
			for d < len(img) && d < int(seg.CommittedLen) && img[d] == ino.Vol[d] {
				d++
			}
			ex.violate("format", "bytes-differ", "%s: %s differs from the reference encoding at offset %d (committed length %d)", where, name, d, seg.CommittedLen)
			return
		}
		// an index frame closes a segment: nothing is ever committed behind one
		for bi := 0; bi+1 < len(seg.Batches); bi++ {
			if seg.Batches[bi].HasIndex {
				ex.violate("format", "index-frame-not-last", "%s: %s has an index frame in committed batch %d of %d: frames were committed behind an index frame", where, name, bi+1, len(seg.Batches))
				return
			}
		}
		offs := seg.EntryOffsets()
		for _, o := range offs {
			if o%8 != 0 {
				ex.violate("format", "misaligned-frame", "%s: %s entry frame at offset %d is not 8-byte aligned", where, name, o)
				return
			}
		}
		if sealed {
			ex.probes.Add("format_sealed_checked", 1)
			isSealed, b := seg.Sealed()
			if !isSealed {
				ex.violate("format", "sealed-without-index", "%s: metadata says %s is sealed but its last committed batch has no index frame", where, name)
				return
			}
			if si.IndexStart != uint64(b.IndexPayloadOffset) {
				ex.violate("format", "index-start", "%s: %s IndexStart in metadata %d, index payload is at %d", where, name, si.IndexStart, b.IndexPayloadOffset)
				return
			}
			if len(b.Index) != len(offs) {
				ex.violate("format", "index-count", "%s: %s index has %d offsets for %d entry frames", where, name, len(b.Index), len(offs))
				return
			}
			for i := range offs {
				if b.Index[i] != offs[i] {
					ex.violate("format", "index-offset", "%s: %s index[%d]=%d but entry frame %d is at %d", where, name, i, b.Index[i], i, offs[i])
					return
				}
			}
		} else if yes, _ := seg.Sealed(); yes {
			// a tail whose file is sealed while metadata says unsealed is the
			// legal window between the sealing append and the rotation commit
			ex.probes.Add("format_tail_sealed_pending", 1)
		}
		// live entries equal the model
		if cur == nil {
			continue
		}
		ents := seg.AllEntries()
		for j, payload := range ents {
			idx := si.BaseIndex + uint64(j)
			if idx < si.MinIndex || (sealed && idx > si.MaxIndex) {
				continue
			}
			if cur.Empty() || idx < cur.First || idx > cur.Last {
				if !sealed && ex.gen == 0 && !ex.faultedEver {
					// committed entry in the tail beyond the model's last index
					ex.violate("format", "tail-has-extra-committed", "%s: %s holds a committed entry for index %d, log is [%d,%d]", where, name, idx, cur.First, cur.Last)
					return
				}
				continue
			}
			var buf bytes.Buffer
			(&wal.BinaryCodec{}).Encode(cur.Ent[idx].Log(), &buf)
			if !bytes.Equal(buf.Bytes(), payload) {
				ex.violate("format", "entry-payload", "%s: %s entry frame for index %d does not hold the encoding of the model's entry (id %x)", where, name, idx, cur.Ent[idx].ID)
				return
			}
			found++
		}
		// one commit frame per acknowledged batch (crash- and fault-free histories)
		if ex.gen == 0 && !ex.faultedEver {
			pos := si.BaseIndex
			for _, b := range seg.Batches {
				if len(b.Entries) == 0 {
					continue
				}
				first, last := pos, pos+uint64(len(b.Entries))-1
				pos = last + 1
				if last < si.MinIndex || (sealed && last > si.MaxIndex) || cur.Empty() || last > cur.Last || first < cur.First {
					continue
				}
				ex.probes.Add("format_batches_checked", 1)
				if f, ok := ex.batches[last]; !ok || f != first {
					ex.violate("format", "commit-boundaries", "%s: %s has a commit frame closing entries [%d,%d], which is not an acknowledged batch", where, name, first, last)
					return
				}
			}
		}
	}
	if cur != nil && found != cur.Len() {
		ex.violate("format", "entries-missing-from-files", "%s: the segment files hold %d of the model's %d live entries", where, found, cur.Len())
		return
	}
	_ = fmt.Sprint
}
