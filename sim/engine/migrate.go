package engine

import (
	"context"
	"errors"
	"fmt"
	"os"
	"path/filepath"
	"syscall"

	"github.com/hashicorp/raft"
	raftboltdb "github.com/hashicorp/raft-boltdb/v2"
	"github.com/hashicorp/raft-wal/migrate"
	"verif/sim/model"
	"verif/sim/sched"
	"verif/sim/tape"
)

func init() {
	generators["C19"] = func(p *pg) (Config, Plan) {
		c := p.baseConfig("C19")
		c.SegSize = []int{128, 512, 4096, 65536}[p.r.Intn(4)]
		return c, Plan{}
	}
	customRunners["C19"] = runC19
}

// memStore is the in-memory reference raft.LogStore + StableStore.
type memStore struct {
	first, last uint64
	m           map[uint64]*raft.Log
	kv          map[string][]byte
}

func newMemStore() *memStore { return &memStore{m: map[uint64]*raft.Log{}, kv: map[string][]byte{}} }

func (s *memStore) FirstIndex() (uint64, error) { return s.first, nil }
func (s *memStore) LastIndex() (uint64, error)  { return s.last, nil }
func (s *memStore) GetLog(i uint64, l *raft.Log) error {
	x, ok := s.m[i]
	if !ok {
		return raft.ErrLogNotFound
	}
	*l = *x
	l.Data = append([]byte(nil), x.Data...)
	l.Extensions = append([]byte(nil), x.Extensions...)
	return nil
}
func (s *memStore) StoreLog(l *raft.Log) error { return s.StoreLogs([]*raft.Log{l}) }
func (s *memStore) StoreLogs(ls []*raft.Log) error {
	for _, l := range ls {
		if s.last != 0 && l.Index != s.last+1 {
			return fmt.Errorf("memstore: non-contiguous append %d after %d", l.Index, s.last)
		}
		c := *l
		c.Data = append([]byte(nil), l.Data...)
		c.Extensions = append([]byte(nil), l.Extensions...)
		s.m[l.Index] = &c
		if s.first == 0 {
			s.first = l.Index
		}
		s.last = l.Index
	}
	return nil
}
func (s *memStore) DeleteRange(min, max uint64) error {
	if s.last == 0 || min > max || max < s.first || min > s.last {
		return nil
	}
	if min < s.first {
		min = s.first
	}
	if max > s.last {
		max = s.last
	}
	for i := min; i <= max; i++ {
		delete(s.m, i)
	}
	switch {
	case min == s.first && max == s.last:
		s.first, s.last = 0, 0
	case min == s.first:
		s.first = max + 1
	case max == s.last:
		s.last = min - 1
	default:
		return errors.New("memstore: middle deletion")
	}
	return nil
}
func (s *memStore) Set(k, v []byte) error { s.kv[string(k)] = append([]byte(nil), v...); return nil }
func (s *memStore) Get(k []byte) ([]byte, error) {
	v, ok := s.kv[string(k)]
	if !ok {
		return nil, errors.New("not found")
	}
	return v, nil
}
func (s *memStore) SetUint64(k []byte, v uint64) error {
	b := make([]byte, 8)
	for i := 0; i < 8; i++ {
		b[i] = byte(v >> (8 * uint(i)))
	}
	s.kv["u:"+string(k)] = b
	return nil
}
func (s *memStore) GetUint64(k []byte) (uint64, error) {
	b, ok := s.kv["u:"+string(k)]
	if !ok {
		return 0, nil
	}
	var v uint64
	for i := 7; i >= 0; i-- {
		v = v<<8 | uint64(b[i])
	}
	return v, nil
}

// faultStable lets one call of a stable store fail (without effect) or cancel
// the context.
type faultStable struct {
	inner  raft.StableStore
	onCall func(what string) error
}

func (f *faultStable) Set(k, v []byte) error {
	if err := f.onCall("Set"); err != nil {
		return err
	}
	return f.inner.Set(k, v)
}
func (f *faultStable) Get(k []byte) ([]byte, error) {
	if err := f.onCall("Get"); err != nil {
		return nil, err
	}
	return f.inner.Get(k)
}
func (f *faultStable) SetUint64(k []byte, v uint64) error {
	if err := f.onCall("SetUint64"); err != nil {
		return err
	}
	return f.inner.SetUint64(k, v)
}
func (f *faultStable) GetUint64(k []byte) (uint64, error) {
	if err := f.onCall("GetUint64"); err != nil {
		return 0, err
	}
	return f.inner.GetUint64(k)
}

// seamStore makes every call on a store a yield point, a cancellation point
// and an error-fault point.
type seamStore struct {
	inner   raft.LogStore
	sim     *sched.Sim
	calls   *int
	onCall  func(n int, what string) error
	stores  int
	batches [][2]uint64
	// cancelled (if set) points at the driver's flag; getsAfterCancel counts
	// GetLog calls that began after the context had been cancelled
	cancelled       *bool
	getsAfterCancel int
}

func (s *seamStore) pre(what string) error {
	s.sim.MaybeYield("store:" + what)
	*s.calls++
	if s.onCall != nil {
		return s.onCall(*s.calls, what)
	}
	return nil
}
func (s *seamStore) FirstIndex() (uint64, error) {
	if err := s.pre("FirstIndex"); err != nil {
		return 0, err
	}
	return s.inner.FirstIndex()
}
func (s *seamStore) LastIndex() (uint64, error) {
	if err := s.pre("LastIndex"); err != nil {
		return 0, err
	}
	return s.inner.LastIndex()
}
func (s *seamStore) GetLog(i uint64, l *raft.Log) error {
	if s.cancelled != nil && *s.cancelled {
		s.getsAfterCancel++
	}
	if err := s.pre("GetLog"); err != nil {
		return err
	}
	return s.inner.GetLog(i, l)
}
func (s *seamStore) StoreLog(l *raft.Log) error { return s.StoreLogs([]*raft.Log{l}) }
func (s *seamStore) StoreLogs(ls []*raft.Log) error {
	if err := s.pre("StoreLogs"); err != nil {
		return err
	}
	s.stores++
	if len(ls) > 0 {
		s.batches = append(s.batches, [2]uint64{ls[0].Index, ls[len(ls)-1].Index})
	}
	return s.inner.StoreLogs(ls)
}
func (s *seamStore) DeleteRange(a, b uint64) error { return s.inner.DeleteRange(a, b) }

type c19 struct {
	prop   string
	tp     *tape.Tape
	sim    *sched.Sim
	viol   *Violation
	probes Counters
	fired  Counters
	sig    []string
	tmp    []string
	execs  []*Exec
}

func (c *c19) violate(oracle, class, format string, args ...interface{}) {
	if c.viol == nil {
		c.viol = &Violation{Property: c.prop, Oracle: oracle, Class: class, Message: fmt.Sprintf(format, args...)}
	}
}

// mkStore builds a store of the tape-chosen kind.
func (c *c19) mkStore(cfg Config, role string) (raft.LogStore, string, func()) {
	switch c.tp.Choose(3) {
	case 0:
		return newMemStore(), "mem", func() {}
	case 1:
		d, err := os.MkdirTemp(shmDir(), "walsim-bolt-")
		if err != nil {
			return newMemStore(), "mem", func() {}
		}
		c.tmp = append(c.tmp, d)
		b, err := raftboltdb.NewBoltStore(filepath.Join(d, "raft.db"))
		if err != nil {
			return newMemStore(), "mem", func() {}
		}
		return b, "boltdb", func() { b.Close() }
	default:
		ex := NewExec(c.prop, cfg, Plan{}, c.tp)
		ex.sim = c.sim
		ex.g = &Gen{ex: ex, sim: c.sim}
		ex.cfg.Profile = "C19"
		ex.dirPrefix = role + "-"
		c.execs = append(c.execs, ex)
		w, err := ex.openWAL(ex.g, 0, cfg.SegSize)
		c.sim.OpEnd()
		if err != nil {
			return newMemStore(), "mem", func() {}
		}
		return w, "wal", func() { w.Close(); c.sim.OpEnd() }
	}
}

func runC19(prop string, seed uint64, cfg Config, plan Plan, tp *tape.Tape) *RunResult {
	c := &c19{prop: prop, tp: tp, probes: Counters{}, fired: Counters{}}
	c.sim = sched.New(tp)
	c.sim.StickNum, c.sim.StickDen = cfg.StickNum, cfg.StickDen
	var log []string
	c.sim.Go("main", nil, func() { log = c.run(cfg) })
	res := c.sim.Wait()
	for _, d := range c.tmp {
		os.RemoveAll(d)
	}
	st := &RunStats{Steps: c.sim.Steps, Contended: c.sim.Contended, Sig: c.sim.Sig, Fired: c.fired, Probes: c.probes, Points: Counters{}, Gens: 1, Ops: 1}
	for k, n := range c.sim.Points {
		st.Points.Add(k, int64(n))
	}
	for _, ex := range c.execs {
		st.SeamCalls += ex.stats.SeamCalls
	}
	st.CaseSig = fmt.Sprint(c.sig)
	st.Nontrivial = true
	r := &RunResult{Seed: seed, Viol: c.viol, Stats: st, Config: cfg, Plan: plan, Tape: tp.Rec, Log: log}
	if res.Panicked != nil {
		r.HarnessErr = fmt.Sprintf("harness panic: %v\n%s", res.Panicked.PanicVal, trimStack(res.Panicked.PanicStack))
	} else if res.Kind != sched.EndDone && c.viol == nil {
		r.HarnessErr = "C19 run ended with " + res.Kind.String() + ": " + res.Detail
	}
	return r
}

func (c *c19) run(cfg Config) (log []string) {
	tp := c.tp
	logf := func(f string, a ...interface{}) { log = append(log, fmt.Sprintf(f, a...)) }
	if tp.Choose(5) == 0 {
		c.runStable(logf)
		return
	}
	srcInner, srcKind, srcClose := c.mkStore(cfg, "src")
	dstInner, dstKind, dstClose := c.mkStore(cfg, "dst")
	defer srcClose()
	defer dstClose()
	// source content
	n := []int{0, 0, 1, 2, 3, 5, 8, 13, 40, 120}[tp.Choose(10)]
	first := []uint64{1, 1, 2, 1000, 1<<32 - 2, 1 << 40}[tp.Choose(6)]
	var ents []*model.Entry
	id := uint64(1)
	var batch []*raft.Log
	for i := 0; i < n; i++ {
		sz := []int{0, 1, 8, 16, 40, 100, 1000, 5000}[tp.Choose(8)]
		e := &model.Entry{ID: id, Index: first + uint64(i), Size: sz, ExtSize: []int{0, 0, 0, 24, 5}[tp.Choose(5)]}
		id++
		ents = append(ents, e)
		batch = append(batch, e.Log())
		if len(batch) >= 1+tp.Choose(7) || i == n-1 {
			if err := srcInner.StoreLogs(batch); err != nil {
				c.sim.OpEnd()
				logf("seeding source failed: %v", err)
				return
			}
			c.sim.OpEnd()
			batch = nil
		}
	}
	batchBytes := 0
	switch tp.Choose(6) {
	case 0:
		batchBytes = 0
	case 1:
		batchBytes = 1
	case 2:
		batchBytes = 32 + []int{0, 1, 8, 16, 40}[tp.Choose(5)]
	case 3:
		batchBytes = 200
	case 4:
		batchBytes = 5000
	default:
		batchBytes = 1 << 30
	}
	var progress chan string
	pk := tp.Choose(3)
	switch pk {
	case 1:
		progress = make(chan string, 1024)
	case 2:
		progress = make(chan string) // unbuffered and never drained
	}
	ctx, cancel := context.WithCancel(context.Background())
	defer cancel()
	calls := 0
	mode := tp.Choose(4) // 0,1 = plain; 2 = cancel at call k; 3 = error at call k
	k := 1 + tp.Choose(2*n+6)
	injected := false
	cancelled := false
	onCall := func(cn int, what string) error {
		if cn != k {
			return nil
		}
		switch mode {
		case 2:
			cancel()
			cancelled = true
			c.fired.Add("cancel_at_"+what, 1)
		case 3:
			injected = true
			c.fired.Add("error_at_"+what, 1)
			return &InjectedError{Call: what, Err: syscall.EIO}
		}
		return nil
	}
	src := &seamStore{inner: srcInner, sim: c.sim, calls: &calls, onCall: onCall, cancelled: &cancelled}
	dst := &seamStore{inner: dstInner, sim: c.sim, calls: &calls, onCall: onCall}
	c.sig = append(c.sig, srcKind, dstKind, fmt.Sprintf("n=%d bb=%d pk=%d mode=%d", bucket(n), batchBytes, pk, mode))
	logf("CopyLogs %s->%s n=%d first=%d batchBytes=%d progress=%d mode=%d k=%d", srcKind, dstKind, n, first, batchBytes, pk, mode, k)
	var err error
	func() {
		defer func() {
			if r := recover(); r != nil {
				c.violate("no-panic", "panic:CopyLogs", "CopyLogs panicked: %v", r)
			}
			c.sim.OpEnd()
		}()
		err = migrate.CopyLogs(ctx, dst, src, batchBytes, progress)
	}()
	logf("CopyLogs -> %v (calls=%d cancelled=%v injected=%v)", err, calls, cancelled, injected)
	if c.viol != nil {
		return
	}
	// progress channel closed on every return path
	if progress != nil {
		closed := false
		for i := 0; i < 5000; i++ {
			select {
			case _, ok := <-progress:
				if !ok {
					closed = true
				}
			default:
				i = 5000
			}
			if closed {
				break
			}
		}
		if !closed {
			c.violate("progress-closed", "progress-not-closed", "the progress channel was not closed when CopyLogs returned (err=%v)", err)
			return
		}
		c.probes.Add("progress_closed_checked", 1)
	}
	// destination content
	df, _ := dstInner.FirstIndex()
	dl, _ := dstInner.LastIndex()
	c.sim.OpEnd()
	checkPrefix := func(upto int) bool {
		for i := 0; i < upto; i++ {
			var l raft.Log
			if e := dstInner.GetLog(ents[i].Index, &l); e != nil {
				c.sim.OpEnd()
				c.violate("copy-faithful", "dest-missing-entry", "destination lacks index %d: %v", ents[i].Index, e)
				return false
			}
			c.sim.OpEnd()
			if d := model.DiffLog(ents[i].Log(), &l); d != "" {
				c.violate("copy-faithful", "dest-entry-differs", "destination entry %d differs: %s", ents[i].Index, d)
				return false
			}
		}
		return true
	}
	if cancelled && err == nil && src.getsAfterCancel > 0 {
		// A cancellation that lands during the last entry's fetch or later may
		// legitimately go unnoticed; one that lands while entries remain to be
		// fetched must be honoured: the copy went on to fetch more and still
		// reported success.
		c.violate("cancel-error", "cancel-ignored", "the context was cancelled during call %d; CopyLogs fetched %d more source entries and returned nil instead of the context's error", k, src.getsAfterCancel)
		return
	}
	if cancelled && err == nil {
		c.probes.Add("cancel_after_last_fetch", 1)
	}
	switch {
	case cancelled && err != nil:
		c.probes.Add("cancel_honoured", 1)
		if !errors.Is(err, context.Canceled) {
			c.violate("cancel-error", "cancel-wrong-error", "after cancellation CopyLogs returned %v, want the context's error", err)
			return
		}
		fallthrough
	case injected:
		if injected && err == nil {
			c.violate("copy-faithful", "error-swallowed", "an injected store error was swallowed: CopyLogs returned nil")
			return
		}
		// destination holds a prefix of the source
		cnt := 0
		if dl != 0 {
			cnt = int(dl - df + 1)
			if df != first || cnt > n {
				c.violate("copy-faithful", "dest-not-a-prefix", "destination [%d,%d] is not a prefix of source [%d..] of %d entries", df, dl, first, n)
				return
			}
		}
		if !checkPrefix(cnt) {
			return
		}
		c.probes.Add("prefix_checked", 1)
	default:
		if err != nil {
			cls := "copy-failed"
			if n == 0 {
				cls = "empty-source-error"
			}
			c.violate("copy-faithful", cls, "CopyLogs of %d entries starting at %d failed without cancellation or fault: %v", n, first, err)
			return
		}
		if n == 0 {
			if dl != 0 || df != 0 {
				c.violate("copy-faithful", "empty-source-nonempty-dest", "empty source left destination [%d,%d]", df, dl)
			}
			c.probes.Add("empty_source_copied", 1)
			return
		}
		if df != first || dl != first+uint64(n)-1 {
			c.violate("copy-faithful", "dest-bounds", "destination [%d,%d], source [%d,%d]", df, dl, first, first+uint64(n)-1)
			return
		}
		if !checkPrefix(n) {
			return
		}
		c.probes.Add("full_copy_checked", 1)
	}
	return
}

func bucket(n int) int {
	switch {
	case n == 0:
		return 0
	case n <= 3:
		return 3
	case n <= 13:
		return 13
	}
	return 100
}

// runStable checks CopyStable: the three raft keys and any extra keys.
// splitStable is a StableStore whose byte values and uint64 values live in
// separate key spaces (like raft.InmemStore): the same key name may hold one of
// each.
type splitStable struct {
	kv  map[string][]byte
	kvU map[string]uint64
}

func newSplitStable() *splitStable {
	return &splitStable{kv: map[string][]byte{}, kvU: map[string]uint64{}}
}
func (s *splitStable) Set(k, v []byte) error            { s.kv[string(k)] = append([]byte(nil), v...); return nil }
func (s *splitStable) Get(k []byte) ([]byte, error)      { return append([]byte(nil), s.kv[string(k)]...), nil }
func (s *splitStable) SetUint64(k []byte, v uint64) error { s.kvU[string(k)] = v; return nil }
func (s *splitStable) GetUint64(k []byte) (uint64, error) { return s.kvU[string(k)], nil }

func (c *c19) runStable(logf func(string, ...interface{})) {
	tp := c.tp
	var src, dst raft.StableStore = newMemStore(), newMemStore()
	// a third of the runs: stores with separate key spaces for byte and uint64
	// values, and key names that occur in both lists (an extra key named like an
	// int key, a standard int key's name listed among the byte keys)
	split := tp.Choose(3) == 0
	if split {
		src, dst = newSplitStable(), newSplitStable()
	}
	want := map[string]string{}
	wantU := map[string]uint64{}
	setU := func(k string) {
		v := uint64(tp.Choose(1 << 30))
		src.SetUint64([]byte(k), v)
		wantU[k] = v
	}
	set := func(k string) {
		v := fmt.Sprintf("val-%d", tp.Choose(1<<20))
		src.Set([]byte(k), []byte(v))
		want[k] = v
	}
	if tp.Choose(4) != 0 {
		setU("CurrentTerm")
	}
	if tp.Choose(4) != 0 {
		setU("LastVoteTerm")
	}
	set("LastVoteCand")
	var extra, extraInt [][]byte
	for i := 0; i < tp.Choose(4); i++ {
		k := fmt.Sprintf("extra%d", i)
		set(k)
		extra = append(extra, []byte(k))
	}
	for i := 0; i < tp.Choose(4); i++ {
		k := fmt.Sprintf("extraInt%d", i)
		setU(k)
		extraInt = append(extraInt, []byte(k))
	}
	if split {
		for i := 0; i < 1+tp.Choose(2); i++ {
			k := fmt.Sprintf("both%d", i)
			set(k)
			setU(k)
			extra = append(extra, []byte(k))
			extraInt = append(extraInt, []byte(k))
			c.probes.Add("stable_key_in_both_spaces", 1)
		}
		if tp.Choose(2) == 0 {
			k := []string{"CurrentTerm", "LastVoteTerm"}[tp.Choose(2)]
			set(k)
			extra = append(extra, []byte(k))
		}
		if tp.Choose(2) == 0 {
			setU("LastVoteCand")
			extraInt = append(extraInt, []byte("LastVoteCand"))
		}
	}
	var progress chan string
	if tp.Choose(2) == 0 {
		progress = make(chan string, 64)
	}
	ctx, cancel := context.WithCancel(context.Background())
	defer cancel()
	pre := tp.Choose(5) == 0
	if pre {
		cancel()
	}
	// one store call (source read or destination write) fails without effect, or
	// the context is cancelled during it
	calls, injected, cancelledAt := 0, false, 0
	mode := tp.Choose(4) // 0,1 = plain; 2 = error at call k; 3 = cancel at call k
	k := 1 + tp.Choose(2*(len(want)+len(wantU))+2)
	onCall := func(what string) error {
		calls++
		if calls != k || pre {
			return nil
		}
		switch mode {
		case 2:
			injected = true
			c.fired.Add("stable_error_at_"+what, 1)
			return &InjectedError{Call: what, Err: syscall.EIO}
		case 3:
			cancelledAt = calls
			cancel()
			c.fired.Add("stable_cancel_at_"+what, 1)
		}
		return nil
	}
	fsrc := &faultStable{inner: src, onCall: onCall}
	fdst := &faultStable{inner: dst, onCall: onCall}
	c.sig = append(c.sig, "stable", fmt.Sprint(len(extra), len(extraInt), pre, mode))
	err := migrate.CopyStable(ctx, fdst, fsrc, extra, extraInt, progress)
	logf("CopyStable extra=%d extraInt=%d precancel=%v mode=%d k=%d -> %v (calls=%d)", len(extra), len(extraInt), pre, mode, k, err, calls)
	if progress != nil {
		closed := false
		for i := 0; i < 200; i++ {
			select {
			case _, ok := <-progress:
				if !ok {
					closed = true
				}
			default:
				i = 200
			}
			if closed {
				break
			}
		}
		if !closed {
			c.violate("progress-closed", "stable-progress-not-closed", "CopyStable did not close the progress channel (err=%v)", err)
			return
		}
	}
	if pre {
		if !errors.Is(err, context.Canceled) {
			c.violate("cancel-error", "stable-cancel-wrong-error", "CopyStable with a cancelled context returned %v", err)
		}
		return
	}
	if err != nil && cancelledAt != 0 {
		if !errors.Is(err, context.Canceled) {
			c.violate("cancel-error", "stable-cancel-wrong-error", "CopyStable cancelled during call %d returned %v", cancelledAt, err)
		}
		return
	}
	if err != nil && injected {
		c.probes.Add("stable_error_reported", 1)
		return
	}
	if err != nil {
		c.violate("copy-faithful", "stable-copy-failed", "CopyStable failed: %v", err)
		return
	}
	// a nil return means every key was transferred - whatever happened on the way
	for k, v := range want {
		got, _ := dst.Get([]byte(k))
		if string(got) != v {
			c.violate("copy-faithful", "stable-key-differs", "key %q: got %q want %q", k, got, v)
			return
		}
	}
	for k, v := range wantU {
		got, _ := dst.GetUint64([]byte(k))
		if got != v {
			c.violate("copy-faithful", "stable-int-key-differs", "int key %q: got %d want %d", k, got, v)
			return
		}
	}
	c.probes.Add("stable_copied", 1)
}
