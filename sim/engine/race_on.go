//go:build race

package engine

import (
	"runtime"
	"unsafe"
)

// The production I/O path orders every pread after every earlier pwrite
// through one global sync variable (syscall.Pwrite does
// race.ReleaseMerge(&ioSync), syscall.Pread does race.Acquire(&ioSync)). The
// simulated files reproduce exactly these edges, so the detector reports no
// race that the real file system calls would order, and hides none they would
// not.
var ioSync int64

func raceWrite() { runtime.RaceReleaseMerge(unsafe.Pointer(&ioSync)) }
func raceRead()  { runtime.RaceAcquire(unsafe.Pointer(&ioSync)) }
