//go:build race

package engine

import (
	"runtime"
	"unsafe"
)

// The production I/O path orders every pread after every earlier pwrite
// through one global sync variable (syscall.Pwrite does
// race.ReleaseMerge(&ioSync), syscall.Pread does race.Acquire(&ioSync)). The
// simulated files reproduce exactly these edges, so the detector reports no
// race that the real file system calls would order, and hides none they would
// not.
var ioSync int64

func raceWrite() { runtime.RaceReleaseMerge(unsafe.Pointer(&ioSync)) }
func raceRead()  { runtime.RaceAcquire(unsafe.Pointer(&ioSync)) }

// bbolt serialises its transactions through its own locks (rwlock, metalock,
// mmaplock), so every metadata call is ordered after every earlier one. The
// simulated store mirrors that with one sync variable, touched on entry and
// exit of each call.
var metaSync int64

func raceMeta() {
	runtime.RaceAcquire(unsafe.Pointer(&metaSync))
	runtime.RaceReleaseMerge(unsafe.Pointer(&metaSync))
}
