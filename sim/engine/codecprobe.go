package engine

import (
	"fmt"
	"path/filepath"
	"time"

	wal "github.com/hashicorp/raft-wal"
	"github.com/hashicorp/raft-wal/metadb"
	"go.etcd.io/bbolt"
)

func init() {
	generators["C12"] = func(p *pg) (Config, Plan) { return p.genC12() }
}

// genC12: (a) reader tasks retain GetLog results while other reads recycle the
// pooled buffers; (b) codec identity across reopen histories.
func (p *pg) genC12() (Config, Plan) {
	if p.r.Intn(2) == 0 {
		c, plan := p.genC06("C12")
		// entries on both sides of the 64 KiB pooled buffer
		for i := range plan.Ops {
			if plan.Ops[i].Kind == "append" {
				for j := range plan.Ops[i].Sizes {
					switch p.r.Intn(4) {
					case 0:
						plan.Ops[i].Sizes[j] = 65536 - 64 + p.r.Intn(128)
					case 1:
						plan.Ops[i].Sizes[j] = 70000 + p.r.Intn(1000)
					}
				}
			}
		}
		c.SegSize = []int{4096, 65536, 1 << 20}[p.r.Intn(3)]
		// the buffer hand-back of a two-read (> 64 KiB) GetLog is only interesting
		// when another reader starts a read AND gets through its first ReadAt inside
		// it (two scheduling decisions in a row for that reader): at least two
		// readers, and in half of the runs a sticky scheduler and mostly large entries
		if c.Readers < 2 {
			c.Readers = 2 + p.r.Intn(3)
		}
		if p.r.Intn(2) == 0 {
			c.StickNum, c.StickDen = []int{3, 4, 9}[p.r.Intn(3)], []int{4, 5, 10}[0]
			switch c.StickNum {
			case 4:
				c.StickDen = 5
			case 9:
				c.StickDen = 10
			}
			for i := range plan.Ops {
				if plan.Ops[i].Kind == "append" {
					for j := range plan.Ops[i].Sizes {
						if p.r.Intn(2) == 0 {
							plan.Ops[i].Sizes[j] = 66000 + p.r.Intn(8000)
						}
					}
				}
			}
		}
		return c, plan
	}
	c := p.baseConfig("C12")
	c.Strict = true
	if p.r.Intn(3) != 0 {
		c.CodecID = []uint64{1 << 16, 1<<16 + 1, 1 << 40, ^uint64(0)}[p.r.Intn(4)]
	}
	if p.r.Intn(3) == 0 {
		c.Meta = "bolt"
	}
	kinds := []string{"append", "append", "deltail", "delhead", "reopen", "get", "get", "codec_probe"}
	mix := p.swarmMix(kinds, "append", "codec_probe", "get")
	var plan Plan
	plan.Ops = append(plan.Ops, p.appendOp())
	n := 3 + p.r.Intn(14)
	for i := 0; i < n; i++ {
		op := p.draw(mix)
		if op.Kind == "codec_probe" {
			op.Var = p.r.Intn(1000)
		}
		plan.Ops = append(plan.Ops, op)
	}
	plan.Ops = append(plan.Ops, OpSpec{Kind: "codec_probe", Var: p.r.Intn(1000)})
	if p.r.Intn(3) == 0 {
		i := p.r.Intn(len(plan.Ops))
		if plan.Ops[i].Kind == "append" {
			plan.Ops[i].Fault = &FaultSpec{Class: "crash", K: p.r.Intn(3), When: "after"}
		}
	}
	return c, plan
}

// boltLocked reports whether wal-meta.db is still flock'ed (a leaked handle
// from a failed Open): bbolt.Open with a timeout turns the hang into an error.
func (ex *Exec) boltLocked() bool {
	if ex.cfg.Meta != "bolt" {
		return false
	}
	db, err := bbolt.Open(filepath.Join(ex.boltDir, metadb.FileName), 0o600, &bbolt.Options{Timeout: 150 * time.Millisecond, ReadOnly: false})
	if err != nil {
		return true
	}
	db.Close()
	return false
}

// doCodecProbe: with the WAL closed, every wrong codec must be refused (and
// leave nothing locked), a reserved codec ID must be rejected before the
// directory is touched, and the right codec must reopen the log unchanged.
func (ex *Exec) doCodecProbe(op OpSpec) {
	ex.closeAndCheck()
	if ex.stop() {
		return
	}
	g := ex.g
	right := ex.cfg.CodecID
	var wrong []uint64
	if right == 0 {
		wrong = []uint64{1 << 16, 1<<16 + uint64(op.Var)}
	} else {
		wrong = []uint64{0, right ^ 1, 1<<16 + uint64(op.Var)}
		if wrong[2] == right {
			wrong[2]++
		}
	}
	w0 := wrong[op.Var%len(wrong)]
	h0 := g.openHandles
	var w *wal.WAL
	err := ex.callR(func() error {
		var e error
		w, e = ex.openWAL(g, w0, ex.cfg.SegSize)
		return e
	})
	if ex.stop() {
		return
	}
	if err == nil {
		ex.violate("codec-identity", "wrong-codec-accepted", "directory written with codec ID %d was opened with codec ID %d", right, w0)
		return
	}
	ex.probes.Add("wrong_codec_refused", 1)
	if g.openHandles != h0 {
		ex.probes.Add("ignored_failed_open_leak", 1)
		ex.aborted = true
		return
	}
	if ex.boltLocked() {
		// C11's statement (a failed Open leaves nothing locked); do not hang here
		ex.probes.Add("ignored_failed_open_leaves_lock", 1)
		ex.aborted = true
		return
	}
	// reserved IDs: rejected before touching the directory
	seam0 := ex.stats.SeamCalls
	rid := uint64(1 + op.Var%65535)
	err = ex.callR(func() error {
		var e error
		w, e = wal.Open(ex.dir(), wal.WithCodec(&testCodec{id: rid}), wal.WithSegmentFiler(nil), wal.WithMetaStore(&metaWrap{g: g, inner: &simMetaInner{st: ex.meta}}))
		return e
	})
	if ex.stop() {
		return
	}
	if err == nil {
		ex.violate("codec-identity", "reserved-codec-accepted", "reserved codec ID %d was accepted", rid)
		return
	}
	if ex.stats.SeamCalls != seam0 {
		ex.violate("codec-identity", "reserved-codec-touched-dir", "reserved codec ID %d was rejected only after %d storage calls", rid, ex.stats.SeamCalls-seam0)
		return
	}
	ex.probes.Add("reserved_codec_rejected", 1)
	// the right codec reopens the log unchanged
	err = ex.call("Open", func() error {
		var e error
		w, e = ex.openWAL(g, right, ex.cfg.SegSize)
		return e
	})
	if ex.stop() {
		return
	}
	if err != nil {
		ex.violate("codec-identity", "same-codec-refused:"+errClass(err), "reopen with the codec the log was created with (ID %d) failed: %v", right, err)
		return
	}
	ex.w = w
	ex.or.Restart()
	ex.probes.Add("same_codec_reopened", 1)
	ex.reopens++
	ex.observeAndCheck(fmt.Sprintf("codec-probe op %d", ex.curOp), false, true)
}
