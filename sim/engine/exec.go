package engine

import (
	"bytes"
	"errors"
	"fmt"
	"os"
	"path/filepath"
	"reflect"
	"runtime/debug"
	"sort"
	"strings"
	"sync"
	"unsafe"

	"github.com/hashicorp/go-hclog"
	"github.com/hashicorp/raft"
	wal "github.com/hashicorp/raft-wal"
	"github.com/hashicorp/raft-wal/metadb"
	"github.com/hashicorp/raft-wal/metrics"
	"github.com/hashicorp/raft-wal/segment"
	"github.com/hashicorp/raft-wal/types"
	"verif/sim/model"
	"verif/sim/sched"
	"verif/sim/simdisk"
	"verif/sim/simmeta"
	"verif/sim/tape"
)

type crashInfo struct {
	Power bool
	At    seamCall
	When  string
	Task  string
}

type window struct {
	fault *FaultSpec
	fired bool
	all   int
	mut   int
	byK   map[string]int
}

// Exec is the state of one simulation run across process generations.
type Exec struct {
	cfg  Config
	plan Plan
	tape *tape.Tape
	prop string

	disk    *simdisk.Disk
	meta    *simmeta.Store
	boltDir string
	realDir string
	or      *model.Oracle
	nextID  uint64

	pc        int
	gen       int
	win       window
	persist   []*FaultSpec
	crashInfo *crashInfo
	nested    *FaultSpec
	inflight  *model.Op
	viol      *Violation

	faultedLifetime bool // an injected error fired since the WAL was last opened
	faultedEver     bool
	deleteFaulted   bool
	buggifyEOF      bool

	stats     RunStats
	seamKinds Counters
	fired     Counters
	probes    Counters
	log       []string

	// C13 bookkeeping
	createdNames  map[string]int
	idBase        map[uint64]uint64
	maxIDCreated  uint64
	lastNextID    uint64
	committed     *types.PersistentState
	prevCommitted *types.PersistentState
	inOpen        bool
	rotCommits    int // CommitState calls by the rotator that succeeded in this lifetime

	// per-lifetime handles
	w       *wal.WAL
	g       *Gen
	sim     *sched.Sim
	mc      *metrics.AtomicCollector
	want    map[string]uint64 // expected metric totals for mc
	metaObj types.MetaStore
	opens   int
	curOp   int

	protected  map[uint64]*model.Entry // acknowledged entries not covered by any issued DeleteRange
	batches    map[uint64]uint64       // last index of an acked batch -> first index (C09 commit boundaries)
	stableKept []keptStable            // C08: slices returned by Get, kept with a private copy
	retained   []retainedRead          // C12 aliasing: GetLog results kept for later re-verification
	reuseLog   raft.Log                // destination re-used by every second GetLog of the plan (shallow copies are retained)
	sigParts   []string
	caseSeq    []string
	ackedApp   int
	truncs     int
	reopens    int
	stateSigs  map[uint64]bool
	hookLog    func(t *sched.Task, point string)
	maxOps     int
	liveness   bool // deadlock / step overrun is a property violation in this profile
	recovering bool
	handleGen  int  // generation whose handle count is meaningful (no failed Open / fault since)
	lastPower  bool // the most recent crash was a power loss
	wals       map[string]*wal.WAL
	conc       *concState
	cl         *closeState
	lastDir    string
	dirPrefix  string
	failedIDs  map[uint64]bool // entries submitted by StoreLogs calls that returned an error
	aborted    bool // a foreign oracle failed in a way that makes the rest of the run meaningless
}

// abortOnIgnored: some failures of another property's oracle leave the model
// and the implementation out of step (e.g. Open failed); the run then stops
// without a verdict instead of producing follow-on noise.
func (ex *Exec) abortOnIgnored(oracle string) bool {
	switch oracle {
	case "open-succeeds", "no-panic", "api-error", "contiguous-readable", "content-equal", "bounds", "close":
		return true
	}
	return false
}

type keptStable struct {
	key  string
	got  []byte // the slice the WAL returned (may alias storage if the copy-out is missing)
	copy string
}

type retainedRead struct {
	want *model.Entry
	got  *raft.Log
}

// TraceAll dumps every scheduling decision (debugging aid).
var TraceAll bool

// NewExec prepares a run.
func NewExec(prop string, cfg Config, plan Plan, tp *tape.Tape) *Exec {
	ex := &Exec{
		cfg: cfg, plan: plan, tape: tp, prop: prop,
		disk:         simdisk.New(cfg.Prealloc),
		meta:         simmeta.New(),
		or:           model.NewOracle(),
		nextID:       1,
		seamKinds:    Counters{},
		fired:        Counters{},
		probes:       Counters{},
		createdNames: map[string]int{},
		idBase:       map[uint64]uint64{},
		batches:      map[uint64]uint64{},
		protected:    map[uint64]*model.Entry{},
		wals:         map[string]*wal.WAL{},
		stateSigs:    map[uint64]bool{},
	}
	return ex
}

func (ex *Exec) stop() bool { return ex.viol != nil || ex.aborted }

func (ex *Exec) logf(format string, args ...interface{}) {
	if len(ex.log) > 400 {
		ex.log = ex.log[100:]
	}
	ex.log = append(ex.log, fmt.Sprintf(format, args...))
}

// oraclesOf lists, per profile, the oracles that implement that property's
// statement. A failed oracle that is not listed is ignored (it is another
// property's business and is reported by that property's check).
var oraclesOf = map[string][]string{
	// C01 is exactly its statement: Open succeeds and every acknowledged entry
	// not covered by an issued DeleteRange is returned identical and bracketed by
	// First/Last. (Atomicity of in-flight operations is C02/C04's statement.)
	"C01": {"open-succeeds", "acked-entries-survive", "api-error"},
	"C02": {"contiguous-readable", "content-equal", "bounds", "api-error", "no-resurrection"},
	"C03": {"open-succeeds", "accepts-legal-ops", "model-accepts", "contiguous-readable", "content-equal", "bounds", "api-error", "no-deadlock", "bounded-progress", "close", "stable-get", "stable-map", "no-panic"},
	"C04": {"open-succeeds", "contiguous-readable", "content-equal", "bounds", "api-error"},
	"C05": {"open-succeeds", "accepts-legal-ops", "model-accepts", "contiguous-readable", "content-equal", "bounds", "api-error", "not-found-outside-range", "no-panic"},
	"C06": {"reads-linearizable", "porcupine", "no-panic"},
	"C14": {"racing-call-result", "closed-is-final", "handles-released", "close", "no-panic", "no-deadlock", "bounded-progress", "acked-entries-survive", "open-succeeds"},
	"C08": {"stable-get", "stable-map", "stable-no-aliasing", "contiguous-readable", "content-equal", "bounds", "open-succeeds"},
	"C09": {"format"},
	"C10": {"open-succeeds", "contiguous-readable", "content-equal", "bounds", "api-error", "no-panic", "model-accepts", "failed-append-invisible"},
	"C11": {"no-panic", "bounded-work", "bounded-alloc", "failed-open-releases", "no-silent-shortening", "decode-robust"},
	"C12": {"no-aliasing", "content-equal", "contiguous-readable", "bounds", "codec-identity", "open-succeeds"},
	"C13": {"dir-matches-metadata", "segment-id-unique", "handles-released"},
	"C15": {"accepted-is-readable", "within-limit-accepted", "content-equal", "contiguous-readable", "bounds", "open-succeeds", "no-panic"},
	"C20": {"metrics-add-up", "no-panic"},
}

func (ex *Exec) on(oracle string) bool {
	if oracle == "harness" || oracle == "never-blocks-forever" {
		// (blocked-forever / livelock: no call may fail to return, in any profile)
		return true
	}
	for _, o := range oraclesOf[ex.cfg.Profile] {
		if o == oracle {
			return true
		}
	}
	return false
}

func (ex *Exec) violate(oracle, class, format string, args ...interface{}) {
	if ex.stop() {
		return
	}
	if !ex.on(oracle) {
		ex.probes.Add("ignored_"+oracle, 1)
		if ex.abortOnIgnored(oracle) {
			ex.aborted = true
		}
		return
	}
	ex.viol = &Violation{Property: ex.prop, Oracle: oracle, Class: class, Message: fmt.Sprintf(format, args...), AtOp: ex.curOp, Gen: ex.gen}
	ex.logf("VIOLATION %s", ex.viol.Error())
}

// ---------------------------------------------------------------- fault plan

func (ex *Exec) openWindow(f *FaultSpec) {
	ex.win = window{fault: f, byK: map[string]int{}}
}

func matches(f *FaultSpec, c seamCall) bool {
	if f.Target != "" {
		return f.Target == c.Kind
	}
	if f.Class == "err" {
		return true
	}
	return c.Mut
}

func (ex *Exec) faultFor(c seamCall) action {
	w := &ex.win
	w.all++
	if c.Mut {
		w.mut++
	}
	// persistent error faults stay active until cleared
	for _, pf := range ex.persist {
		if matches(pf, c) {
			ex.fired.Add("err_persistent_"+c.Kind, 1)
			ex.faultedLifetime, ex.faultedEver = true, true
			if c.Kind == "Delete" {
				ex.deleteFaulted = true
			}
			return actErrBefore
		}
	}
	f := w.fault
	if f == nil || w.fired {
		return actNone
	}
	if !matches(f, c) {
		return actNone
	}
	key := f.Target
	n := w.byK[key]
	w.byK[key] = n + 1
	if n != f.K {
		return actNone
	}
	w.fired = true
	switch f.Class {
	case "crash", "power":
		ex.fired.Add(f.Class+"_"+f.When+"_"+c.Kind, 1)
		ex.fired.Add(f.Class, 1)
		switch f.When {
		case "after":
			return actCrashAfter
		case "mid":
			return actCrashMid
		}
		return actCrashBefore
	case "err":
		ex.fired.Add("err_"+f.When+"_"+c.Kind, 1)
		ex.fired.Add("err", 1)
		ex.sigParts = append(ex.sigParts, fmt.Sprintf("err:%s:%s:%v:op=%s", c.Kind, f.When, f.Persistent, ex.curOpKind()))
		ex.faultedLifetime, ex.faultedEver = true, true
		if c.Kind == "Delete" {
			ex.deleteFaulted = true
		}
		if f.Persistent {
			ex.persist = append(ex.persist, &FaultSpec{Class: "err", Target: c.Kind})
		}
		switch f.When {
		case "after":
			return actErrAfter
		case "mid":
			return actErrMid
		}
		return actErrBefore
	}
	return actNone
}

func (ex *Exec) noteCrash(c seamCall, when string) {
	f := ex.win.fault
	t := ex.sim.Current()
	name := ""
	if t != nil {
		name = t.Name
	}
	ex.crashInfo = &crashInfo{Power: f != nil && f.Class == "power", At: c, When: when, Task: name}
	if f != nil {
		ex.nested = f.Nested
	}
	ex.logf("CRASH gen=%d power=%v at %s %s (%s) task=%s", ex.gen, ex.crashInfo.Power, c.Kind, c.File, when, name)
	ex.sigParts = append(ex.sigParts, fmt.Sprintf("crash:%v:%s:%s:%s:op=%s", ex.crashInfo.Power, c.Kind, when, name, ex.curOpKind()))
}

func (ex *Exec) curOpKind() string {
	if ex.recovering {
		return "open"
	}
	if ex.curOp >= 0 && ex.curOp < len(ex.plan.Ops) {
		return ex.plan.Ops[ex.curOp].Kind
	}
	return "?"
}

func (ex *Exec) noteCreate(name string) {
	ex.createdNames[name]++
	var base, id uint64
	if n, _ := fmt.Sscanf(name, "%020d-%016x.wal", &base, &id); n == 2 {
		if b, ok := ex.idBase[id]; ok && b != base {
			ex.violate("segment-id-unique", "segment-id-reused-different-base", "segment ID %d created for BaseIndex %d was earlier bound to BaseIndex %d", id, base, b)
		}
		ex.idBase[id] = base
		if id > ex.maxIDCreated {
			ex.maxIDCreated = id
		}
	}
}

// sealsTail: the unsealed tail of prev is sealed in cur and cur has a new tail.
func (ex *Exec) sealsTail(prev, cur *types.PersistentState) bool {
	if prev == nil || len(prev.Segments) == 0 || len(cur.Segments) < 2 {
		return false
	}
	pt := prev.Segments[len(prev.Segments)-1]
	if !pt.SealTime.IsZero() {
		return false
	}
	for _, s := range cur.Segments[:len(cur.Segments)-1] {
		if s.ID == pt.ID && !s.SealTime.IsZero() {
			return true
		}
	}
	return false
}

func (ex *Exec) noteCommit(st types.PersistentState) {
	cp := st
	cp.Segments = append([]types.SegmentInfo(nil), st.Segments...)
	ex.committed = &cp
	if st.NextSegmentID < ex.lastNextID {
		ex.violate("segment-id-unique", "next-segment-id-decreased", "NextSegmentID went from %d to %d", ex.lastNextID, st.NextSegmentID)
	}
	ex.lastNextID = st.NextSegmentID
	// A rotation is the metadata commit that seals the tail and names its
	// successor outside of a DeleteRange/StoreLogs call of the caller: it is made
	// by the background rotation task, or by Open when it completes a rotation
	// that was pending when the previous process stopped.
	if t := ex.sim.Current(); t != nil && (t.Name == "rotator" || (ex.inOpen && ex.sealsTail(ex.prevCommitted, &cp))) {
		ex.rotCommits++
	}
	ex.prevCommitted = &cp
}

// ---------------------------------------------------------------- generations

// Run executes the whole plan and returns the first violation (nil if none)
// together with the run's statistics. harnessErr is non-empty for trouble that
// is not a property violation (exit 2).
func (ex *Exec) Run() (v *Violation, harnessErr string) {
	defer ex.cleanup()
	if ex.cfg.Meta == "bolt" {
		d, err := os.MkdirTemp(shmDir(), "walsim-bolt-")
		if err != nil {
			return nil, "mkdtemp: " + err.Error()
		}
		ex.boltDir = d
	}
	ex.buggifyEOF = ex.cfg.Prealloc && ex.cfg.Granule%3 == 0 && false
	for {
		ex.sim = sched.New(ex.tape)
		if n := len(ex.plan.Ops); n > 60 {
			// the observation after each operation reads the whole log: the work of a
			// generation grows with the square of the plan length (deep runs of the
			// thorough tier); the budget that separates "long" from "never ends" grows
			// with it
			ex.sim.MaxSteps += (n - 60) * (n - 60) * 20
		}
		ex.sim.TraceOn = TraceAll
		ex.sim.OnUnsafeDie = ex.lockForDyingTask
		if ex.cfg.Profile == "C15" {
			// 64 MiB entries: a single step (encode, CRC, compare) can take many
			// seconds of wall time when 16 workers do the same
			ex.sim.WatchdogSecs = 300
		}
		ex.sim.StickNum, ex.sim.StickDen = ex.cfg.StickNum, ex.cfg.StickDen
		if ex.hookLog != nil {
			ex.sim.OnHook = ex.hookLog
		}
		ex.g = &Gen{ex: ex, sim: ex.sim, id: ex.gen}
		ex.crashInfo = nil
		ex.faultedLifetime = false
		ex.rotCommits = 0
		ex.persist = nil
		g := ex.g
		ex.sim.Go("main", nil, func() { ex.mainTask(g) })
		res := ex.sim.Wait()
		if TraceAll {
			for _, l := range ex.sim.Trace {
				fmt.Println("   sched:", l)
			}
		}
		ex.stats.Steps += ex.sim.Steps
		ex.stats.Contended += ex.sim.Contended
		ex.stats.Sig = ex.stats.Sig*1099511628211 ^ ex.sim.Sig
		ex.stats.Gens++
		if ex.stats.Points == nil {
			ex.stats.Points = Counters{}
		}
		for k, n := range ex.sim.Points {
			ex.stats.Points.Add(k, int64(n))
		}
		ex.closeBolt()
		if res.Panicked != nil {
			// every call into the code under test recovers its own panics (call /
			// callR); a panic that reaches the task wrapper is the harness's own
			t := res.Panicked
			return nil, fmt.Sprintf("harness panic in task %s: %v\n%s", t.Name, t.PanicVal, trimStack(t.PanicStack))
		}
		if ex.stop() {
			break
		}
		switch res.Kind {
		case sched.EndDone:
			goto done
		case sched.EndCrashed:
			ci := ex.crashInfo
			if ci == nil {
				return nil, "crashed without crashInfo"
			}
			if ex.inflight != nil {
				ex.or.InFlight(*ex.inflight)
				ex.logf("in flight at crash: %v", *ex.inflight)
				ex.inflight = nil
			}
			ex.lastPower = ci.Power
			if ci.Power {
				b := ex.disk.Stats
				ex.disk.PowerLoss(ex.tape, int64(ex.cfg.Granule))
				a := ex.disk.Stats
				pat := "none-dirty"
				k, l := a.BlocksKept-b.BlocksKept, a.BlocksLost-b.BlocksLost
				switch {
				case k > 0 && l > 0:
					pat = "torn"
				case k > 0:
					pat = "all-kept"
				case l > 0:
					pat = "all-lost"
				}
				if a.DirOpsLost > b.DirOpsLost {
					pat += "+dirop-lost"
				}
				ex.sigParts = append(ex.sigParts, "tear:"+pat)
				if TraceAll {
					for _, n := range ex.disk.List() {
						b := ex.disk.Lookup(n).Vol
						end := len(b)
						for end > 0 && b[end-1] == 0 {
							end--
						}
						fmt.Printf("   disk after power loss: %s len=%d nonzero=%d\n", n, len(b), end)
						for o := 0; o < end; o += 32 {
							e := o + 32
							if e > end {
								e = end
							}
							fmt.Printf("     %04x: %x\n", o, b[o:e])
						}
					}
				}
			}
			ex.or.Restart()
			ex.gen++
			ex.recovering = true
			if ex.gen > 12 {
				return nil, "too many generations"
			}
			continue
		case sched.EndDeadlock:
			if ex.liveness {
				ex.violate("no-deadlock", "deadlock:"+deadlockClass(res.Detail), "no task can make progress: %s", res.Detail)
			} else {
				return nil, "deadlock in a profile that does not decide liveness: " + res.Detail
			}
		case sched.EndSteps:
			if ex.liveness {
				ex.violate("bounded-progress", "step-budget", "step budget exhausted: %s", res.Detail)
			} else {
				// every plan is finite and every API call of the unchanged tree ends
				// within a few hundred scheduler steps: 20000 resumes without the plan
				// ending is a call that spins (e.g. a retry loop that never succeeds)
				ex.violate("never-blocks-forever", "livelock:"+deadlockClass(res.Detail), "an API call never returned (step budget of the run exhausted while it kept passing its own yield points): %s", res.Detail)
			}
		}
		break
	}
done:
	ex.finishStats()
	return ex.viol, ""
}

func shmDir() string {
	if st, err := os.Stat("/dev/shm"); err == nil && st.IsDir() {
		return "/dev/shm"
	}
	return os.TempDir()
}

func (ex *Exec) closeBolt() {
	if b, ok := ex.metaObj.(*metadb.BoltMetaDB); ok && b != nil {
		b.Close()
	}
	ex.metaObj = nil
}

func (ex *Exec) cleanup() {
	ex.closeBolt()
	if ex.boltDir != "" {
		os.RemoveAll(ex.boltDir)
	}
}

func panicClass(val, stack string) string {
	// first frame inside raft-wal
	for _, ln := range strings.Split(stack, "\n") {
		if strings.Contains(ln, "github.com/hashicorp/raft-wal") && strings.Contains(ln, "(") && !strings.Contains(ln, "verifhook") {
			ln = strings.TrimSpace(ln)
			if i := strings.LastIndex(ln, "("); i > 0 {
				ln = ln[:i]
			}
			ln = strings.TrimPrefix(ln, "github.com/hashicorp/raft-wal")
			return ln
		}
	}
	if len(val) > 60 {
		val = val[:60]
	}
	return val
}

func deadlockClass(detail string) string {
	// the set of park points of unfinished tasks
	var pts []string
	for _, f := range strings.Split(detail, "] ") {
		if i := strings.Index(f, "@"); i >= 0 && !strings.Contains(f, " done@") {
			p := f[i+1:]
			p = strings.TrimSuffix(p, " (blocked)")
			p = strings.TrimSuffix(p, "]")
			pts = append(pts, strings.TrimSpace(p))
		}
	}
	sort.Strings(pts)
	return strings.Join(pts, "+")
}

func trimStack(s string) string {
	lines := strings.Split(s, "\n")
	if len(lines) > 40 {
		lines = lines[:40]
	}
	return strings.Join(lines, "\n")
}

// ---------------------------------------------------------------- opening

func (ex *Exec) dir() string {
	if ex.cfg.Meta == "bolt" {
		return ex.boltDir
	}
	return fmt.Sprintf("/sim/%sw%d", ex.dirPrefix, ex.opens)
}

type testCodec struct {
	wal.BinaryCodec
	id uint64
}

func (c *testCodec) ID() uint64 { return c.id }

// openWAL opens the WAL over the seams. The caller runs inside a task.
func (ex *Exec) openWAL(g *Gen, codecID uint64, segSize int) (*wal.WAL, error) {
	ex.opens++
	dir := ex.dir()
	ex.lastDir = dir
	vfs := &simVFS{g: g, disk: ex.disk}
	var inner types.MetaStore
	if ex.cfg.Meta == "bolt" {
		b := &metadb.BoltMetaDB{}
		ex.closeBolt()
		ex.metaObj = b
		inner = b
	} else {
		inner = &simMetaInner{st: ex.meta}
	}
	mw := &metaWrap{g: g, inner: inner}
	ex.mc = metrics.NewAtomicCollector(wal.MetricDefinitions)
	ex.want = map[string]uint64{}
	ex.rotCommits = 0
	if st, ok := ex.persistedState(); ok {
		ex.prevCommitted = &st
	}
	ex.inOpen = true
	defer func() { ex.inOpen = false }()
	var w *wal.WAL
	var err error
	sf := segment.NewFiler(dir, vfs)
	// (the option type is unexported: the slice type is inferred)
	wopts := listOf(wal.WithSegmentFiler(sf), wal.WithMetaStore(mw), wal.WithSegmentSize(segSize), wal.WithMetricsCollector(ex.mc))
	if !ex.cfg.DefaultLog {
		wopts = append(wopts, wal.WithLogger(hclog.NewNullLogger()))
	}
	if codecID != 0 {
		wopts = append(wopts, wal.WithCodec(&testCodec{id: codecID}))
	}
	w, err = wal.Open(dir, wopts...)
	if err == nil {
		ex.wals[dir] = w
	}
	return w, err
}

func listOf[T any](xs ...T) []T { return xs }

func init() {
	// Runs that open the WAL without WithLogger exercise its default
	// (hclog.Default()); keep that default silent.
	hclog.SetDefault(hclog.NewNullLogger())
}

// call runs fn (an API call into the code under test), converting a panic
// into a violation and clearing the modelled lock state afterwards.
func (ex *Exec) call(what string, fn func() error) (err error) {
	defer ex.sim.OpEnd()
	defer ex.g.flushDeletes()
	defer func() {
		if r := recover(); r != nil {
			if es, ok := r.(endlessScan); ok {
				ex.violate("never-blocks-forever", "endless-scan:"+what, "%s never returned: more than %d storage calls in one API call (last: %s %s)", what, es.calls, es.kind, es.file)
				err = fmt.Errorf("endless scan")
				return
			}
			st := string(debug.Stack())
			ex.violate("no-panic", "panic:"+panicClass(fmt.Sprint(r), st), "%s panicked: %v\n%s", what, r, trimStack(st))
			err = fmt.Errorf("panic: %v", r)
		}
	}()
	ex.g.reads, ex.g.maxRead = 0, 0
	ex.g.beginCall()
	return fn()
}

func (ex *Exec) mainTask(g *Gen) {
	ex.curOp = ex.pc - 1
	ex.openWindow(ex.nested)
	ex.nested = nil
	var w *wal.WAL
	err := ex.call("Open", func() error {
		var e error
		w, e = ex.openWAL(g, ex.cfg.CodecID, ex.cfg.SegSize)
		return e
	})
	if ex.stop() {
		return
	}
	if err != nil {
		if IsInjected(err) {
			// an error fault inside Open: retry once without faults
			ex.probes.Add("open_failed_injected", 1)
			ex.openWindow(nil)
			ex.persist = nil
			err = ex.call("Open", func() error {
				var e error
				w, e = ex.openWAL(g, ex.cfg.CodecID, ex.cfg.SegSize)
				return e
			})
		}
		if err != nil {
			ex.violate("open-succeeds", "open-failed:"+errClass(err), "Open failed in generation %d: %v", ex.gen, err)
			return
		}
	}
	ex.w = w
	ex.handleGen = ex.gen
	ex.openWindow(nil)
	if ex.recovering || ex.gen == 0 {
		// Only after a power loss is what recovery read also what is durable:
		// after a process crash (or a clean reopen) the OS cache may still hold
		// un-fsynced bytes of an unacknowledged batch, which recovery may
		// legitimately accept and a later power loss may legitimately take away.
		ex.afterOpen(ex.gen == 0 || ex.lastPower)
	}
	ex.recovering = false
	if ex.cfg.Readers > 0 && ex.conc != nil {
		ex.runConcurrent()
		if ex.stop() {
			return
		}
	}
	if ex.cl != nil {
		ex.runCloseRace()
		return
	}
	for ex.pc < len(ex.plan.Ops) && !ex.stop() {
		i := ex.pc
		ex.pc++
		ex.curOp = i
		op := ex.plan.Ops[i]
		ex.openWindow(op.Fault)
		ex.doOp(op)
		ex.stats.Ops++
	}
	if ex.stop() {
		return
	}
	ex.curOp = len(ex.plan.Ops)
	ex.openWindow(nil)
	if ex.cfg.Profile == "C11" {
		ex.corruptAndProbe()
		return
	}
	ex.finalChecks()
}

// lockForDyingTask: see sched.Sim.OnUnsafeDie. The WAL's mutex is unexported,
// so it is reached through reflection; if the field is renamed the lookup fails
// and nothing is done.
func (ex *Exec) lockForDyingTask(key string) {
	w := ex.wals[key]
	if w == nil {
		return
	}
	f := reflect.ValueOf(w).Elem().FieldByName("writeMu")
	if !f.IsValid() || !f.CanAddr() {
		return
	}
	mu := (*sync.Mutex)(unsafe.Pointer(f.UnsafeAddr()))
	mu.TryLock()
}

func stackOf() string { return string(debug.Stack()) }

func errClass(err error) string {
	s := err.Error()
	// strip numbers/hex so that classes are stable across inputs
	var b strings.Builder
	for _, r := range s {
		if r >= '0' && r <= '9' {
			continue
		}
		b.WriteRune(r)
	}
	s = b.String()
	if len(s) > 80 {
		s = s[:80]
	}
	return s
}

// afterOpen runs right after every successful Open: the on-disk state must be
// explained by the oracle, and (profile permitting) the directory and format
// oracles and the usability script run.
func (ex *Exec) afterOpen(durable bool) {
	if ex.gen > 0 {
		ex.probes.Add("recoveries", 1)
		ex.classifyRecovery()
	}
	nDisk := len(ex.or.Disk)
	ex.observeAndCheck("after-open", durable, true)
	if ex.stop() {
		return
	}
	if ex.recovering {
		ex.sigParts = append(ex.sigParts, fmt.Sprintf("rec:%s:cands=%d", ex.stateClass(), nDisk))
	}
	ex.sim.Quiesce("quiesce-after-open")
	ex.quiescentOracles("after-open")
	if ex.stop() {
		return
	}
	if ex.cfg.Usability && ex.gen > 0 {
		ex.usabilityScript()
	}
}

// classifyRecovery records probes about what the recovery found.
func (ex *Exec) classifyRecovery() {
	if ci := ex.crashInfo; ci != nil {
		_ = ci
	}
}

// ---------------------------------------------------------------- observation

func isNotFound(err error) bool { return errors.Is(err, raft.ErrLogNotFound) }

func (ex *Exec) observe(full bool) *model.Obs {
	o := &model.Obs{Logs: map[uint64]*raft.Log{}, ReadErr: map[uint64]error{}}
	w := ex.w
	var err error
	ex.call("FirstIndex", func() error { o.First, err = w.FirstIndex(); return err })
	if err != nil {
		ex.violate("api-error", "firstindex-error:"+errClass(err), "FirstIndex: %v", err)
		return nil
	}
	ex.call("LastIndex", func() error { o.Last, err = w.LastIndex(); return err })
	if err != nil {
		ex.violate("api-error", "lastindex-error:"+errClass(err), "LastIndex: %v", err)
		return nil
	}
	if o.Last == 0 || o.First == 0 || o.First > o.Last || o.Last-o.First > 4096 {
		return o
	}
	n := o.Last - o.First + 1
	for i := o.First; i <= o.Last; i++ {
		if !full && n > 24 && i > o.First+7 && i+8 <= o.Last {
			// sample the middle sparsely in non-full mode
			if (i-o.First)%7 != 0 {
				continue
			}
		}
		var l raft.Log
		e := ex.call("GetLog", func() error { return w.GetLog(i, &l) })
		ex.want["log_entries_read"]++
		if e != nil {
			if IsInjected(e) {
				o.Partial = true
				ex.probes.Add("read_failed_injected", 1)
			} else {
				o.ReadErr[i] = e
			}
		} else {
			o.Logs[i] = &l
		}
		if ex.stop() {
			return nil
		}
	}
	o.Partial = o.Partial || !full
	return o
}

func (ex *Exec) observeAndCheck(where string, durable, full bool) {
	o := ex.observe(full)
	if o == nil || ex.stop() {
		return
	}
	if full && !o.Partial {
		ex.protectedOracle(where, o)
		if ex.stop() {
			return
		}
	}
	if d := ex.or.Check(o, durable); d != "" {
		if g := ex.or.GhostExplains(o); g != nil {
			ex.probes.Add("resurrected_unacked_batch", 1)
			if ex.on("no-resurrection") {
				ex.violate("no-resurrection", "rolled-back-unacked-batch-resurrected", "%s: %v, a batch that was in flight at an earlier crash and absent after that crash's recovery, is present again (built from its stale bytes); observed [%d,%d]", where, *g, o.First, o.Last)
			} else {
				ex.aborted = true
			}
			return
		}
		oracle, class := ex.classifyMismatch(o, durable)
		ex.violate(oracle, class, "%s: %s", where, d)
		return
	}
	ex.noteState()
}

// protectedOracle is C01's statement evaluated on a full read-back.
func (ex *Exec) protectedOracle(where string, o *model.Obs) {
	if !ex.on("acked-entries-survive") || len(ex.protected) == 0 {
		return
	}
	idxs := make([]uint64, 0, len(ex.protected))
	for i := range ex.protected {
		idxs = append(idxs, i)
	}
	sort.Slice(idxs, func(a, b int) bool { return idxs[a] < idxs[b] })
	for _, i := range idxs {
		e := ex.protected[i]
		if o.Last == 0 || i < o.First || i > o.Last {
			ex.violate("acked-entries-survive", "acked-entry-outside-first-last", "%s: acknowledged entry %d (id %x) is outside [FirstIndex,LastIndex]=[%d,%d]", where, i, e.ID, o.First, o.Last)
			return
		}
		if err, bad := o.ReadErr[i]; bad {
			ex.violate("acked-entries-survive", "acked-entry-unreadable:"+errClass(err), "%s: GetLog(%d) of an acknowledged entry failed: %v", where, i, err)
			return
		}
		got := o.Logs[i]
		if got == nil {
			continue
		}
		if d := model.DiffLog(e.Log(), got); d != "" {
			ex.violate("acked-entries-survive", "acked-entry-altered", "%s: acknowledged entry %d differs: %s (want id %x got id %x)", where, i, d, e.ID, model.IDOf(got))
			return
		}
	}
	ex.probes.Add("protected_entries_checked", int64(len(idxs)))
}

func (ex *Exec) noteState() {
	s := ex.or.Cur()
	h := uint64(s.Len())*1000003 ^ uint64(len(ex.or.Mem))<<40 ^ uint64(len(ex.or.Disk))<<48
	if ex.committed != nil {
		h = h*31 + uint64(len(ex.committed.Segments))
		for _, sg := range ex.committed.Segments {
			x := uint64(0)
			if !sg.SealTime.IsZero() {
				x = 1
			}
			if sg.MinIndex != sg.BaseIndex {
				x |= 2
			}
			h = h*131 + x
		}
	}
	ex.stateSigs[h] = true
}

// classifyMismatch names the oracle and cause class of a failed observation by
// comparing it with every candidate.
func (ex *Exec) classifyMismatch(o *model.Obs, durable bool) (string, string) {
	// a read error inside [First,Last]?
	if len(o.ReadErr) > 0 {
		for _, i := range sortedKeys(o.ReadErr) {
			return "contiguous-readable", "read-error-in-range:" + errClass(o.ReadErr[i])
		}
	}
	where := "inproc"
	if durable {
		where = "reopen"
	}
	for _, s := range ex.or.Mem {
		if s.First == o.First && s.Last == o.Last {
			return "content-equal", where + ":wrong-content"
		}
	}
	// bounds differ from every candidate
	c := ex.or.Mem[0]
	switch {
	case o.Last < c.Last && (o.First == c.First || o.Last == 0):
		return "bounds", where + ":lost-tail"
	case o.Last > c.Last:
		return "bounds", where + ":extra-tail"
	case o.First != c.First:
		return "bounds", where + ":first-mismatch"
	}
	return "bounds", where + ":bounds-mismatch"
}

func sortedKeys(m map[uint64]error) []uint64 {
	ks := make([]uint64, 0, len(m))
	for k := range m {
		ks = append(ks, k)
	}
	sort.Slice(ks, func(i, j int) bool { return ks[i] < ks[j] })
	return ks
}

// outsideProbes: GetLog outside [First,Last] must be ErrLogNotFound (C05).
func (ex *Exec) outsideProbes() {
	s := ex.or.Definite()
	if s == nil {
		return
	}
	var idxs []uint64
	if s.Empty() {
		idxs = []uint64{0, 1, 2, ex.cfg.FirstIndex, 1 << 40}
	} else {
		idxs = []uint64{0, s.Last + 1, s.Last + 2, s.Last + 1000}
		if s.First > 1 {
			idxs = append(idxs, s.First-1, 1)
		}
		if s.First > 2 {
			idxs = append(idxs, s.First-2, (s.First+1)/2)
		}
	}
	for _, i := range idxs {
		var l raft.Log
		err := ex.call("GetLog", func() error { return ex.w.GetLog(i, &l) })
		ex.want["log_entries_read"]++
		if ex.stop() {
			return
		}
		if err == nil {
			pos := "above-last"
			if !s.Empty() && i < s.First {
				pos = "below-first"
			} else if s.Empty() {
				pos = "empty-log"
			}
			ex.violate("not-found-outside-range", "read-outside-range-succeeded:"+pos, "GetLog(%d) returned an entry (id %x) but the log is [%d,%d]", i, model.IDOf(&l), s.First, s.Last)
			return
		}
		if !isNotFound(err) {
			ex.violate("not-found-outside-range", "read-outside-range-error:"+errClass(err), "GetLog(%d) outside [%d,%d] returned %v, want raft.ErrLogNotFound", i, s.First, s.Last, err)
			return
		}
	}
}

// ---------------------------------------------------------------- ops

func (ex *Exec) newEntry(idx uint64, size, ext int) *model.Entry {
	e := &model.Entry{ID: ex.nextID, Index: idx, Size: size, ExtSize: ext}
	ex.nextID++
	return e
}

// result classification shared by mutating ops
func (ex *Exec) settle(what string, mop model.Op, err error) {
	ex.inflight = nil
	switch {
	case err == nil:
		if d := ex.or.Acked(mop); d != "" {
			ex.violate("model-accepts", "acked-illegal-op:"+opClass(mop), "%s", d)
		}
	case IsInjected(err) || ex.faultedLifetime:
		if !IsInjected(err) {
			ex.probes.Add("refused_after_fault", 1)
		}
		ex.or.Failed(mop)
		ex.logf("%s failed under fault: %v", what, err)
	default:
		if d := ex.or.Rejected(mop); d != "" {
			cls := "refused-legal-" + opClass(mop) + ":" + errClass(err)
			if ex.gen > 0 {
				cls = "after-recovery:" + cls
			}
			ex.violate("accepts-legal-ops", cls, "%s: %s (error: %v)", what, d, err)
		}
	}
}

func opClass(o model.Op) string {
	switch o.Kind {
	case model.OpAppend:
		return "append"
	case model.OpDelete:
		return "delete"
	}
	return "set"
}

func (ex *Exec) doAppend(op OpSpec) {
	cur := ex.or.Cur()
	n := op.N
	if n < 1 {
		n = 1
	}
	var start uint64
	if cur.Empty() {
		switch op.Var % 4 {
		case 0:
			start = ex.cfg.FirstIndex
		case 1:
			start = 1
		case 2:
			start = ex.cfg.FirstIndex + uint64(op.K) + 1
		default:
			start = uint64(op.K) + 2
		}
		if start == 0 {
			start = 1
		}
	} else {
		start = cur.Last + 1
	}
	bad := ""
	switch op.Key {
	case "gap":
		start++
		bad = "gap"
	case "overlap":
		if start > 1 {
			start--
		}
		bad = "overlap"
	case "far":
		start += 1000
		bad = "far"
	}
	var es []*model.Entry
	var logs []*raft.Log
	idx := start
	for i := 0; i < n; i++ {
		sz, ext := 16, 0
		if i < len(op.Sizes) {
			sz = op.Sizes[i]
		}
		if i < len(op.Ext) {
			ext = op.Ext[i]
		}
		if op.Key == "nonconsec" && i == n-1 && n > 1 {
			idx++
			bad = "nonconsec"
		}
		if op.Key == "enc64m" && i == 0 {
			// encoded size exactly MaxEntrySize + op.K
			probe := ex.newEntry(idx, 0, ext)
			ex.nextID-- // the probe's ID is reused by the real entry
			var pb bytes.Buffer
			(&wal.BinaryCodec{}).Encode(probe.Log(), &pb)
			// the length prefix of Data grows from 1 to 4 bytes
			sz = segment.MaxEntrySize + op.K - pb.Len() - 3
			ex.probes.Add(fmt.Sprintf("append_encoded_64MiB%+d", op.K), 1)
		}
		e := ex.newEntry(idx, sz, ext)
		es = append(es, e)
		logs = append(logs, e.Log())
		idx++
	}
	mop := model.Op{Kind: model.OpAppend, Entries: es}
	ex.inflight = &mop
	wc := ex.writerBegin()
	err := ex.call("StoreLogs", func() error { return ex.w.StoreLogs(logs) })
	ex.logf("op %d StoreLogs[%d..%d] n=%d %s -> %v", ex.curOp, start, idx-1, n, bad, err)
	if ex.stop() {
		return
	}
	for _, e := range es {
		switch {
		case e.Size >= 64<<20-40 && err == nil:
			ex.probes.Add("append_near_64MiB_acked", 1)
		case e.Size >= 64<<20-40:
			ex.probes.Add("append_over_64MiB_refused", 1)
		case e.Size >= 65536-40 && err == nil:
			ex.probes.Add("append_ge_64KiB_acked", 1)
		}
		if e.Size >= ex.cfg.SegSize && err == nil {
			ex.probes.Add("append_larger_than_segment_acked", 1)
		}
	}
	if err != nil && !IsInjected(err) && !ex.faultedLifetime && bad == "" && ex.on("within-limit-accepted") {
		// C15: sizes up to the documented maximum are stored. Judged on the encoded
		// record, which is what the limit applies to.
		within := true
		for i, e := range es {
			if e.Size < segment.MaxEntrySize-4096 {
				continue
			}
			var buf bytes.Buffer
			(&wal.BinaryCodec{}).Encode(logs[i], &buf)
			if buf.Len() > segment.MaxEntrySize {
				within = false
			}
		}
		if within && ex.or.Rejected(mop) != "" {
			ex.violate("within-limit-accepted", "refused-within-size-limit:"+errClass(err), "StoreLogs refused a legal batch whose entries all encode to at most %d bytes: %v", segment.MaxEntrySize, err)
			return
		}
	}
	if err != nil {
		if ex.failedIDs == nil {
			ex.failedIDs = map[uint64]bool{}
		}
		for _, e := range es {
			ex.failedIDs[e.ID] = true
		}
	}
	if err == nil {
		ex.want["log_appends"]++
		ex.want["log_entries_written"] += uint64(len(logs))
		for _, l := range logs {
			var buf bytes.Buffer
			(&wal.BinaryCodec{}).Encode(l, &buf)
			ex.want["log_entry_bytes_written"] += uint64(buf.Len())
		}
		ex.batches[es[len(es)-1].Index] = es[0].Index
		ex.ackedApp++
		for _, e := range es {
			ex.protected[e.Index] = e
		}
	}
	ex.settle("StoreLogs", mop, err)
	ex.writerEnd("append", wc, err == nil)
}

func (ex *Exec) doDelete(op OpSpec) {
	cur := ex.or.Cur()
	var min, max uint64
	f, l := cur.First, cur.Last
	k := uint64(op.K)
	if k < 1 {
		k = 1
	}
	if cur.Empty() {
		// any range on an empty log is a no-op
		min, max = 1+uint64(op.Var), 1+uint64(op.Var)+k
	} else {
		n := l - f + 1
		switch op.Kind {
		case "delhead":
			if k > n {
				k = n
			}
			max = f + k - 1
			switch op.Var % 3 {
			case 0:
				min = f
			case 1:
				min = 0
			default:
				if f > 1 {
					min = f - 1
				} else {
					min = f
				}
			}
		case "deltail":
			if k > n {
				k = n
			}
			min = l - k + 1
			switch op.Var % 3 {
			case 0:
				max = l
			case 1:
				max = l + 5
			default:
				max = ^uint64(0)
			}
		case "delall":
			switch op.Var % 3 {
			case 0:
				min, max = f, l
			case 1:
				min, max = 0, l+3
			default:
				min, max = f, ^uint64(0)
			}
		case "delmid":
			if n < 3 {
				min, max = f, f // degenerates to a head truncation of one entry
			} else {
				min = f + 1 + uint64(op.Var)%(n-2)
				max = min + k - 1
				if max >= l {
					max = l - 1
				}
			}
		case "delnoop":
			switch op.Var % 3 {
			case 0:
				min, max = l+1, l+k
			case 1:
				if f > 1 {
					min, max = 0, f-1
				} else {
					min, max = l+2, l+2
				}
			default:
				min, max = f+1, f // min > max
			}
		}
	}
	mop := model.Op{Kind: model.OpDelete, Min: min, Max: max}
	ex.inflight = &mop
	if min <= max {
		// an entry stops being protected the moment a DeleteRange covering it is issued
		for idx := range ex.protected {
			if idx >= min && idx <= max {
				delete(ex.protected, idx)
			}
		}
	}
	// metric expectation is derived from the model before the call
	var hr, tr uint64
	if d := ex.or.Definite(); d != nil && d.Legal(mop) {
		hr, tr = d.Removed(mop)
	}
	wc := ex.writerBegin()
	err := ex.call("DeleteRange", func() error { return ex.w.DeleteRange(min, max) })
	ex.logf("op %d DeleteRange(%d,%d) [%s] log=[%d,%d] -> %v", ex.curOp, min, max, op.Kind, f, l, err)
	if ex.stop() {
		return
	}
	if err == nil {
		ex.want["head_truncations"] += hr
		ex.want["tail_truncations"] += tr
		if hr+tr > 0 {
			ex.probes.Add("truncations", 1)
			ex.truncs++
		}
	}
	ex.settle("DeleteRange", mop, err)
	ex.writerEnd("delete", wc, err == nil)
	if err == nil && !ex.stop() && !ex.faultedLifetime && ex.conc == nil {
		ex.dirOracle("after-delete")
	}
}

func (ex *Exec) doGet(op OpSpec) {
	cur := ex.or.Cur()
	var idx uint64
	if cur.Empty() {
		idx = uint64(op.Var)
	} else {
		n := cur.Last - cur.First + 1
		switch op.K % 6 {
		case 0:
			idx = cur.First + uint64(op.Var)%n
		case 1:
			idx = cur.First
		case 2:
			idx = cur.Last
		case 3:
			idx = cur.Last + 1 + uint64(op.Var)%3
		case 4:
			if cur.First > 0 {
				idx = cur.First - 1
			}
		default:
			idx = uint64(op.Var)
		}
	}
	var l raft.Log
	// Every second read decodes into ONE raft.Log value the caller keeps re-using (the `var l raft.Log; for ... {
	// GetLog(i, &l); out = append(out, l) }` pattern) and retains a shallow copy of the result: a log returned by
	// GetLog must stay unchanged when a later read decodes into the same destination (seeded C12i).
	reuse := op.Var%2 == 1
	err := ex.call("GetLog", func() error {
		if reuse {
			e := ex.w.GetLog(idx, &ex.reuseLog)
			l = ex.reuseLog
			return e
		}
		return ex.w.GetLog(idx, &l)
	})
	ex.want["log_entries_read"]++
	if ex.stop() {
		return
	}
	ok := false
	var why string
	for _, s := range ex.or.Mem {
		in := !s.Empty() && idx >= s.First && idx <= s.Last
		switch {
		case in && err == nil:
			if d := model.DiffLog(s.Ent[idx].Log(), &l); d == "" {
				ok = true
			} else {
				why = d
			}
		case in && err != nil:
			why = fmt.Sprintf("error %v for an index inside [%d,%d]", err, s.First, s.Last)
			if ex.faultedLifetime && IsInjected(err) {
				ok = true
			}
		case !in && err == nil:
			why = fmt.Sprintf("returned an entry outside [%d,%d]", s.First, s.Last)
		default:
			if isNotFound(err) || (ex.faultedLifetime && IsInjected(err)) {
				ok = true
			} else {
				why = fmt.Sprintf("error %v, want raft.ErrLogNotFound", err)
			}
		}
		if ok {
			break
		}
	}
	if !ok {
		s := ex.or.Mem[0]
		in := !s.Empty() && idx >= s.First && idx <= s.Last
		switch {
		case !in && err == nil:
			pos := "above-last"
			if s.Empty() {
				pos = "empty-log"
			} else if idx < s.First {
				pos = "below-first"
			}
			ex.violate("not-found-outside-range", "read-outside-range-succeeded:"+pos, "GetLog(%d): %s", idx, why)
		case in && err != nil:
			ex.violate("contiguous-readable", "read-error-in-range:"+errClass(err), "GetLog(%d): %s", idx, why)
		case in:
			ex.violate("content-equal", "inproc:wrong-content", "GetLog(%d): %s", idx, why)
		default:
			ex.violate("not-found-outside-range", "read-outside-range-error:"+errClass(err), "GetLog(%d): %s", idx, why)
		}
		return
	}
	if err == nil && len(ex.retained) < 64 {
		if s := ex.or.Definite(); s != nil {
			ex.retained = append(ex.retained, retainedRead{want: s.Ent[idx], got: &l})
		}
	}
}

func stableKey(op OpSpec) string {
	if op.Key != "" {
		return op.Key
	}
	return [...]string{"CurrentTerm", "LastVoteTerm", "LastVoteCand", "k3", "\x00bin\xff"}[op.Var%5]
}

func (ex *Exec) doSet(op OpSpec) {
	key := stableKey(op)
	var val []byte
	var sv *string
	switch {
	case op.N < 0:
		// nil value deletes
	case op.K == 2:
		// a value that recurs: the same bytes every time this (key, size) is
		// drawn, so that "set v, delete, set v again" and "set v twice" occur
		val = make([]byte, op.N)
		for i := range val {
			val[i] = byte(i*7+len(key)) ^ 0x5a
		}
		s := string(val)
		sv = &s
	default:
		val = make([]byte, op.N)
		for i := range val {
			val[i] = byte(ex.nextID>>uint(i%8)) ^ byte(i)
		}
		ex.nextID++
		s := string(val)
		sv = &s
	}
	mop := model.Op{Kind: model.OpSet, Key: key, Val: sv}
	ex.inflight = &mop
	var err error
	if op.K == 1 && len(val) == 8 {
		// SetUint64 path
		var u uint64
		for i := 7; i >= 0; i-- {
			u = u<<8 | uint64(val[i])
		}
		err = ex.call("SetUint64", func() error { return ex.w.SetUint64([]byte(key), u) })
	} else {
		err = ex.call("Set", func() error { return ex.w.Set([]byte(key), val) })
	}
	ex.want["stable_sets"]++
	ex.logf("op %d Set(%q,%d bytes) -> %v", ex.curOp, key, len(val), err)
	if ex.stop() {
		return
	}
	ex.settle("Set", mop, err)
	ex.recheckStableKept()
}

func (ex *Exec) doGetStable(op OpSpec) {
	key := stableKey(op)
	var got []byte
	err := ex.call("Get", func() error {
		var e error
		got, e = ex.w.Get([]byte(key))
		return e
	})
	ex.want["stable_gets"]++
	if ex.stop() {
		return
	}
	if err != nil {
		if IsInjected(err) {
			return
		}
		ex.violate("stable-get", "stable-get-error:"+errClass(err), "Get(%q): %v", key, err)
		return
	}
	ok := false
	for _, s := range ex.or.Mem {
		if s.Stable[key] == string(got) {
			ok = true
		}
	}
	if !ok {
		ex.violate("stable-map", "stable-wrong-value", "Get(%q) returned %d bytes, model has %d bytes", key, len(got), len(ex.or.Mem[0].Stable[key]))
		return
	}
	if len(got) > 0 && len(ex.stableKept) < 32 {
		ex.stableKept = append(ex.stableKept, keptStable{key: key, got: got, copy: string(got)})
	}
	ex.recheckStableKept()
}

// recheckStableKept: a value returned by Get must stay what it was, whatever
// is written to the store afterwards.
func (ex *Exec) recheckStableKept() {
	old := debug.SetPanicOnFault(true)
	defer debug.SetPanicOnFault(old)
	for _, k := range ex.stableKept {
		changed := false
		func() {
			defer func() {
				if r := recover(); r != nil {
					changed = true
				}
			}()
			changed = string(k.got) != k.copy
		}()
		if changed {
			ex.violate("stable-no-aliasing", "stable-get-result-changed", "the slice returned earlier by Get(%q) changed (or became unreadable) after later stable-store writes", k.key)
			return
		}
	}
}

func (ex *Exec) checkStableAll(where string) {
	keys := map[string]bool{}
	for _, s := range ex.or.Mem {
		for k := range s.Stable {
			keys[k] = true
		}
	}
	for _, k := range []string{"CurrentTerm", "LastVoteTerm", "LastVoteCand", "k3", "\x00bin\xff"} {
		keys[k] = true
	}
	ks := make([]string, 0, len(keys))
	for k := range keys {
		ks = append(ks, k)
	}
	sort.Strings(ks)
	obs := map[string]string{}
	for _, k := range ks {
		var got []byte
		err := ex.call("Get", func() error {
			var e error
			got, e = ex.w.Get([]byte(k))
			return e
		})
		ex.want["stable_gets"]++
		if ex.stop() {
			return
		}
		if err != nil {
			ex.violate("stable-get", "stable-get-error:"+errClass(err), "%s: Get(%q): %v", where, k, err)
			return
		}
		obs[k] = string(got)
	}
	// narrow candidates by stable content
	var keep []*model.State
	for _, s := range ex.or.Mem {
		match := true
		for k, v := range obs {
			if s.Stable[k] != v {
				match = false
			}
		}
		if match {
			keep = append(keep, s)
		}
	}
	if len(keep) == 0 {
		ex.violate("stable-map", "stable-wrong-value-"+where, "%s: stable store contents match no candidate state", where)
		return
	}
	ex.or.Mem = keep
}

func (ex *Exec) doReopen(op OpSpec) {
	ex.closeAndCheck()
	if ex.stop() {
		return
	}
	seg := ex.cfg.SegSize
	if op.N > 0 {
		seg = op.N
	}
	var w *wal.WAL
	err := ex.call("Open", func() error {
		var e error
		w, e = ex.openWAL(ex.g, ex.cfg.CodecID, seg)
		return e
	})
	if ex.stop() {
		return
	}
	if err != nil && IsInjected(err) {
		ex.probes.Add("open_failed_injected", 1)
		ex.openWindow(nil)
		ex.persist = nil
		err = ex.call("Open", func() error {
			var e error
			w, e = ex.openWAL(ex.g, ex.cfg.CodecID, seg)
			return e
		})
	}
	if err != nil {
		ex.violate("open-succeeds", "reopen-failed:"+errClass(err), "clean reopen failed: %v", err)
		return
	}
	ex.w = w
	ex.faultedLifetime = false
	ex.persist = nil
	ex.or.Restart()
	ex.probes.Add("clean_reopens", 1)
	ex.reopens++
	ex.afterOpen(false)
}

func (ex *Exec) closeAndCheck() {
	w := ex.w
	// let a pending rotation finish or not - both are legal; the tape decides
	if ex.tape.Choose(2) == 0 {
		ex.sim.Quiesce("quiesce-before-close")
	}
	err := ex.call("Close", func() error { return w.Close() })
	if ex.stop() {
		return
	}
	if err != nil && !IsInjected(err) {
		ex.violate("close", "close-error:"+errClass(err), "Close: %v", err)
		return
	}
	ex.sim.Quiesce("quiesce-after-close")
	if ex.g.openHandles != 0 && !ex.faultedLifetime {
		ex.violate("handles-released", "handles-leaked-after-close", "%d file handles still open after Close returned and all tasks are quiescent", ex.g.openHandles)
	}
}

func (ex *Exec) stateClass() string {
	s := ex.or.Cur()
	c := "E"
	if n := s.Len(); n == 1 {
		c = "1"
	} else if n > 1 && n <= 4 {
		c = "f"
	} else if n > 4 {
		c = "m"
	}
	if ex.committed != nil {
		k := len(ex.committed.Segments)
		if k > 3 {
			k = 3
		}
		c += string(rune('0' + k))
	}
	return c
}

func (ex *Exec) doOp(op OpSpec) {
	if len(ex.caseSeq) < 64 {
		k := op.Kind
		if op.Key != "" && op.Kind == "append" {
			k += "!" + op.Key
		}
		ex.caseSeq = append(ex.caseSeq, k+":"+ex.stateClass())
	}
	switch op.Kind {
	case "append":
		ex.doAppend(op)
	case "delhead", "deltail", "delall", "delmid", "delnoop":
		ex.doDelete(op)
	case "get":
		ex.doGet(op)
		return
	case "set":
		ex.doSet(op)
	case "getstable":
		ex.doGetStable(op)
		return
	case "reopen":
		ex.doReopen(op)
		return
	case "codec_probe":
		ex.doCodecProbe(op)
		return
	case "quiesce":
		ex.sim.Quiesce("quiesce-op")
		ex.quiescentOracles("quiesce-op")
		return
	case "yield":
		ex.sim.Yield("yield-op")
		return
	case "clearfaults":
		ex.persist = nil
		return
	default:
		ex.violate("harness", "unknown-op", "unknown op kind %q", op.Kind)
		return
	}
	if ex.stop() {
		return
	}
	if ex.cfg.Strict {
		ex.observeAndCheck(fmt.Sprintf("after op %d (%s)", ex.curOp, op.Kind), false, false)
		if !ex.stop() && ex.cfg.Profile == "C05" {
			ex.outsideProbes()
		}
	}
}

// usabilityScript is the C03 oracle: after a recovery the WAL must accept an
// append at Last+1 (any index when empty), further appends, stable writes,
// truncations and clean reopen cycles, all durable.
func (ex *Exec) usabilityScript() {
	ex.probes.Add("usability_scripts", 1)
	script := []OpSpec{
		{Kind: "append", N: 1, Sizes: []int{24}},
		{Kind: "append", N: 2, Sizes: []int{40, 8}},
		{Kind: "set", N: 8, Var: 0, K: 1},
		{Kind: "delhead", K: 1},
		{Kind: "deltail", K: 1},
		{Kind: "reopen"},
	}
	saveStrict := ex.cfg.Strict
	ex.cfg.Strict = true
	saveUs := ex.cfg.Usability
	ex.cfg.Usability = false
	for _, op := range script {
		ex.openWindow(nil)
		ex.doOp(op)
		if ex.stop() {
			if !strings.HasPrefix(ex.viol.Class, "after-recovery:") {
				ex.viol.Class = "usability:" + ex.viol.Class
			}
			break
		}
	}
	ex.cfg.Strict = saveStrict
	ex.cfg.Usability = saveUs
}

func (ex *Exec) finalChecks() {
	ex.observeAndCheck("final", false, true)
	if ex.stop() {
		return
	}
	ex.checkStableAll("final")
	if ex.stop() {
		return
	}
	ex.recheckRetained()
	ex.recheckStableKept()
	if ex.stop() {
		return
	}
	ex.sim.Quiesce("quiesce-final")
	ex.quiescentOracles("final")
	if ex.stop() {
		return
	}
	// one more clean close/open: durability of everything done since the last recovery
	ex.doReopen(OpSpec{Kind: "reopen"})
	if ex.stop() {
		return
	}
	ex.checkStableAll("final-reopen")
	if ex.stop() {
		return
	}
	ex.closeAndCheck()
}

func (ex *Exec) recheckRetained() {
	for _, r := range ex.retained {
		if r.want == nil {
			continue
		}
		if d := model.DiffLog(r.want.Log(), r.got); d != "" {
			ex.violate("no-aliasing", "retained-read-changed", "a log returned earlier by GetLog(%d) changed afterwards: %s", r.want.Index, d)
			return
		}
	}
}

// ---------------------------------------------------------------- quiescent oracles

func (ex *Exec) persistedState() (types.PersistentState, bool) {
	if ex.cfg.Meta == "bolt" {
		if ex.committed != nil {
			return *ex.committed, true
		}
		return types.PersistentState{}, false
	}
	st, err := ex.meta.Load()
	if err != nil {
		return st, false
	}
	return st, true
}

// dirOracle (C13): the directory holds exactly the files of the segments in
// committed metadata.
func (ex *Exec) dirOracle(where string) {
	if ex.deleteFaulted {
		return
	}
	st, ok := ex.persistedState()
	if !ok {
		return
	}
	want := make([]string, 0, len(st.Segments))
	for _, s := range st.Segments {
		want = append(want, segment.FileName(s))
	}
	sort.Strings(want)
	got := ex.disk.List()
	if strings.Join(want, ",") != strings.Join(got, ",") {
		class := "dir-extra-files"
		if len(got) < len(want) {
			class = "dir-missing-files"
		}
		ex.violate("dir-matches-metadata", class+":"+where, "%s: directory %v != metadata segments %v", where, got, want)
	}
	if ex.conc == nil || ex.conc.writerDone {
		// every live segment holds exactly one handle (the tail's writer doubles as
		// its reader); handles of removed segments must be gone once no read is in flight
		if ex.g.openHandles != len(st.Segments) && ex.gen == ex.handleGen {
			ex.violate("handles-released", "handles-vs-segments:"+where, "%s: %d file handles open for %d live segments", where, ex.g.openHandles, len(st.Segments))
		}
	}
	for _, s := range st.Segments {
		if s.ID >= st.NextSegmentID {
			ex.violate("segment-id-unique", "next-id-not-above-live", "segment ID %d >= NextSegmentID %d", s.ID, st.NextSegmentID)
		}
	}
	if ex.maxIDCreated >= st.NextSegmentID && len(ex.idBase) > 0 {
		ex.violate("segment-id-unique", "next-id-not-above-created", "a file with segment ID %d was created but committed NextSegmentID is %d", ex.maxIDCreated, st.NextSegmentID)
	}
}

func (ex *Exec) quiescentOracles(where string) {
	if ex.faultedLifetime {
		ex.appendMetricsOracle(where)
		return
	}
	ex.dirOracle(where)
	if ex.stop() {
		return
	}
	ex.formatOracle(where)
	if ex.stop() {
		return
	}
	ex.metricsOracle(where)
}

// appendMetricsOracle: the counters that stay exactly defined while injected
// errors are about. A StoreLogs that fails appends nothing, whatever it got
// done before failing, so log_appends / log_entries_written /
// log_entry_bytes_written count acknowledged calls only. (Truncation, read,
// stable and rotation counters are ambiguous for a failed call and are judged
// again after the next Open.)
func (ex *Exec) appendMetricsOracle(where string) {
	if ex.mc == nil {
		return
	}
	sum := ex.mc.Summary()
	for _, n := range []string{"log_appends", "log_entries_written", "log_entry_bytes_written"} {
		if sum.Counters[n] != ex.want[n] {
			ex.violate("metrics-add-up", "metric-mismatch-after-failed-call:"+n, "%s: counter %s = %d, true total %d (acknowledged appends only; some call failed with an injected error)", where, n, sum.Counters[n], ex.want[n])
			return
		}
	}
}

func (ex *Exec) metricsOracle(where string) {
	if ex.mc == nil {
		return
	}
	if ex.faultedEver {
		// a call that failed with an injected error leaves the truncation, read,
		// stable and rotation totals ambiguous for the rest of the run (the
		// collector outlives reopens): only the append counters stay defined
		ex.appendMetricsOracle(where)
		return
	}
	sum := ex.mc.Summary()
	ex.want["segment_rotations"] = uint64(ex.rotCommits)
	names := []string{"log_appends", "log_entries_written", "log_entry_bytes_written", "log_entries_read", "stable_gets", "stable_sets", "head_truncations", "tail_truncations", "segment_rotations"}
	for _, n := range names {
		if sum.Counters[n] != ex.want[n] {
			ex.violate("metrics-add-up", "metric-mismatch:"+n, "%s: counter %s = %d, true total %d", where, n, sum.Counters[n], ex.want[n])
			return
		}
	}
}

func (ex *Exec) finishStats() {
	ex.stats.Fired = ex.fired
	ex.stats.Probes = ex.probes
	ds := ex.disk.Stats
	add := func(k string, n int) {
		if n > 0 {
			ex.stats.Fired.Add(k, int64(n))
		}
	}
	add("powerloss_images", ds.PowerLoss)
	add("torn_blocks_kept", ds.BlocksKept)
	add("torn_blocks_lost", ds.BlocksLost)
	add("files_torn", ds.FilesTorn)
	add("dirops_kept", ds.DirOpsKept)
	add("dirops_lost", ds.DirOpsLost)
	add("creates_lost", ds.CreatesLost)
	add("len_shrunk", ds.LenShrunk)
	add("len_unaligned", ds.LenUnaligned)
	add("stale_bytes_behind", ds.StaleBytesBehind)
	for k, v := range ex.seamKinds {
		ex.stats.Probes.Add("seam_"+k, v)
	}
	ex.stats.StateSigs = ex.stateSigs2()
	sort.Strings(ex.sigParts)
	if len(ex.sigParts) > 0 {
		ex.stats.CaseSig = strings.Join(ex.sigParts, ";")
	} else {
		ex.stats.CaseSig = strings.Join(ex.caseSeq, ",")
	}
	switch {
	case len(ex.sigParts) > 0:
		ex.stats.Nontrivial = true
	case ex.fired["err"] > 0:
		ex.stats.Nontrivial = true
	default:
		ex.stats.Nontrivial = ex.ackedApp > 0 && (ex.truncs > 0 || ex.reopens > 0)
	}
}

func (ex *Exec) stateSigs2() []uint64 {
	out := make([]uint64, 0, len(ex.stateSigs))
	for h := range ex.stateSigs {
		out = append(out, h)
	}
	sort.Slice(out, func(i, j int) bool { return out[i] < out[j] })
	return out
}

// Stats returns the statistics of the finished run.
func (ex *Exec) Stats() *RunStats { return &ex.stats }

// Log returns the recent event log.
func (ex *Exec) Log() []string { return ex.log }

var _ = filepath.Join
