package engine

import (
	"os"

	"github.com/hashicorp/raft-wal/fs"
)

// ProbeFS inspects the production fs package for the one behaviour of it the
// simulated disk has to mirror and that is visible from the outside: whether
// handles returned by OpenWriter are the directory-syncing wrapper (*fs.File)
// or a bare *os.File.
func ProbeFS() {
	d, err := os.MkdirTemp(shmDir(), "walsim-probe-")
	if err != nil {
		return
	}
	defer os.RemoveAll(d)
	v := fs.New()
	f, err := v.Create(d, "p", 0)
	if err != nil {
		return
	}
	f.Close()
	w, err := v.OpenWriter(d, "p")
	if err != nil {
		return
	}
	_, openWriterSyncsDir = w.(*fs.File)
	w.Close()
}
