package engine

import (
	"verif/sim/tape"
)

// pg generates plans from a PRNG stream derived from the run seed.
type pg struct {
	r    tape.RNG
	tier string
	// deep: in the thorough tier a quarter of the runs (chosen from the seed, not
	// from the plan stream, so the quick tier's plans are unchanged) get plans
	// three times as long: more segments, more truncation / crash / recovery
	// cycles stacked on one directory.
	deep int
}

// ops scales a plan length for deep runs.
func (p *pg) ops(n int) int { return n * p.deep }

var segSizes = []int{64, 128, 200, 256, 512, 1024, 4096, 65536}
var firstIndexes = []uint64{1, 1, 1, 2, 1000, 1<<32 - 1, 1<<32 + 1, 1 << 62}
var granules = []int{8, 8, 8, 64, 512, 4096}

// dataSizes is deliberately small so that frame sizes repeat and coincidences
// (a new commit ending exactly where a stale frame begins) are common.
var dataSizes = []int{0, 1, 8, 8, 16, 16, 24, 40, 40, 100, 200, 1000}

func (p *pg) size() int {
	switch p.r.Intn(20) {
	case 0:
		return p.r.Intn(64) // every padding residue
	case 1:
		return 65536 - 64 + p.r.Intn(96) // around the pooled read buffer
	case 2:
		return 3000 + p.r.Intn(9)
	}
	return dataSizes[p.r.Intn(len(dataSizes))]
}

func (p *pg) ext() int {
	switch p.r.Intn(8) {
	case 0:
		return 1 + p.r.Intn(40)
	case 1:
		return 24
	}
	return 0
}

func (p *pg) baseConfig(profile string) Config {
	c := Config{
		Profile:    profile,
		SegSize:    segSizes[p.r.Intn(len(segSizes))],
		Prealloc:   p.r.Intn(4) != 0,
		Granule:    granules[p.r.Intn(len(granules))],
		Meta:       "sim",
		Disk:       "sim",
		FirstIndex: firstIndexes[p.r.Intn(len(firstIndexes))],
		OWSyncsDir: openWriterSyncsDir,
		DefaultLog: p.r.Intn(2) == 0,
	}
	c.PostYield = p.r.Intn(2) == 0
	switch p.r.Intn(3) {
	case 0:
		c.StickNum, c.StickDen = 0, 0
	case 1:
		c.StickNum, c.StickDen = 3, 4
	default:
		c.StickNum, c.StickDen = 9, 10
	}
	return c
}

func (p *pg) appendOp() OpSpec {
	n := 1 + p.r.Pick([]int{40, 20, 10, 5, 3, 2})
	op := OpSpec{Kind: "append", N: n, Var: p.r.Intn(4), K: p.r.Intn(50)}
	for i := 0; i < n; i++ {
		op.Sizes = append(op.Sizes, p.size())
		op.Ext = append(op.Ext, p.ext())
	}
	return op
}

func (p *pg) badAppend() OpSpec {
	op := p.appendOp()
	op.Key = []string{"gap", "overlap", "nonconsec", "far"}[p.r.Intn(4)]
	if op.Key == "nonconsec" && op.N < 2 {
		op.N = 2
		op.Sizes = append(op.Sizes, 8)
	}
	return op
}

func (p *pg) deleteOp(kind string) OpSpec {
	return OpSpec{Kind: kind, K: 1 + p.r.Pick([]int{30, 20, 10, 5, 5, 2, 2, 1}), Var: p.r.Intn(30)}
}

func (p *pg) getOp() OpSpec {
	return OpSpec{Kind: "get", K: p.r.Intn(6), Var: p.r.Intn(1000)}
}

func (p *pg) setOp() OpSpec {
	n := []int{8, 8, 0, 1, 30, 300, -1}[p.r.Intn(7)]
	op := OpSpec{Kind: "set", N: n, Var: p.r.Intn(5)}
	if n == 8 && p.r.Intn(2) == 0 {
		op.K = 1
	} else if n > 0 && p.r.Intn(3) == 0 {
		op.K = 2 // recurring value (see doSet)
		op.N = []int{8, 30}[p.r.Intn(2)]
	}
	return op
}

// opMix draws a weighted op according to per-run weights (swarm testing: each
// run enables a random subset of op kinds with random weights).
type opMix struct {
	kinds   []string
	weights []int
}

func (p *pg) swarmMix(kinds []string, always ...string) opMix {
	m := opMix{}
	for _, k := range kinds {
		w := 0
		if p.r.Intn(3) != 0 {
			w = 1 + p.r.Intn(10)
		}
		for _, a := range always {
			if a == k && w == 0 {
				w = 5
			}
		}
		m.kinds = append(m.kinds, k)
		m.weights = append(m.weights, w)
	}
	return m
}

func (p *pg) draw(m opMix) OpSpec {
	k := m.kinds[p.r.Pick(m.weights)]
	switch k {
	case "append":
		return p.appendOp()
	case "badappend":
		return p.badAppend()
	case "delhead", "deltail", "delall", "delmid", "delnoop":
		return p.deleteOp(k)
	case "get":
		return p.getOp()
	case "set":
		return p.setOp()
	case "getstable":
		return OpSpec{Kind: "getstable", Var: p.r.Intn(5)}
	case "reopen":
		op := OpSpec{Kind: "reopen"}
		if p.r.Intn(4) == 0 {
			op.N = segSizes[p.r.Intn(len(segSizes))]
		}
		return op
	case "quiesce":
		return OpSpec{Kind: "quiesce"}
	case "yield":
		return OpSpec{Kind: "yield"}
	}
	return OpSpec{Kind: k}
}

var seqKinds = []string{"append", "badappend", "delhead", "deltail", "delall", "delmid", "delnoop", "get", "set", "getstable", "reopen", "quiesce", "yield"}

// genC05: fault-free sequential programs, strict comparison after every call.
func (p *pg) genC05() (Config, Plan) {
	c := p.baseConfig("C05")
	c.Strict = true
	var plan Plan
	if p.r.Intn(3) == 0 {
		// dense sampling of short programs at one-entry-per-segment geometry
		c.SegSize = 64
		c.FirstIndex = 1
		alpha := []OpSpec{
			{Kind: "append", N: 1, Sizes: []int{8}},
			{Kind: "append", N: 2, Sizes: []int{8, 16}},
			{Kind: "append", N: 3, Sizes: []int{8, 8, 8}},
			{Kind: "append", N: 1, Sizes: []int{8}, Key: "gap"},
			{Kind: "delhead", K: 1},
			{Kind: "delhead", K: 2},
			{Kind: "deltail", K: 1},
			{Kind: "deltail", K: 2},
			{Kind: "delall"},
			{Kind: "delmid", K: 1},
			{Kind: "reopen"},
			{Kind: "quiesce"},
		}
		n := 1 + p.r.Intn(4)
		code := 0
		for i := 0; i < n; i++ {
			a := p.r.Intn(len(alpha))
			code = code*len(alpha) + a
			plan.Ops = append(plan.Ops, alpha[a])
		}
		return c, plan
	}
	mix := p.swarmMix(seqKinds, "append")
	n := p.ops(5 + p.r.Intn(50))
	for i := 0; i < n; i++ {
		plan.Ops = append(plan.Ops, p.draw(mix))
	}
	return c, plan
}

// Generate derives the configuration and plan of run `seed` of a profile.
func Generate(prop string, seed uint64, tier string) (Config, Plan) {
	p := &pg{r: tape.RNG{S: tape.Mix(seed, 0x706c616e)}, tier: tier, deep: 1}
	if tier == "thorough" && tape.Mix(seed, 0x64656570)%4 == 0 {
		p.deep = 3
	}
	switch prop {
	case "C05":
		return p.genC05()
	}
	gen, ok := generators[prop]
	if !ok {
		panic("no generator for " + prop)
	}
	return gen(p)
}

var generators = map[string]func(p *pg) (Config, Plan){}

// openWriterSyncsDir is probed from the real fs package at start-up (see
// probe.go): does a handle returned by OpenWriter also fsync its directory on
// the first Sync, as handles returned by Create do?
var openWriterSyncsDir bool
