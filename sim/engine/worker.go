package engine

import (
	"encoding/json"
	"flag"
	"fmt"
	"hash/fnv"
	"os"
	"os/exec"
	"path/filepath"
	"sort"
	"strconv"
	"strings"
	"time"

	"verif/sim/sched"
	"verif/sim/tape"
)

// KnownFindings is /verif/known_findings.json.
type KnownFindings struct {
	Known []KnownFinding `json:"known"`
	Fixed []FixedFinding `json:"fixed"`
}

type KnownFinding struct {
	Property string `json:"property"`
	Oracle   string `json:"oracle"`
	Class    string `json:"class"`
	What     string `json:"what"`
}

type FixedFinding struct {
	Property string `json:"property"`
	Commit   string `json:"commit"`
	What     string `json:"what"`
}

func loadKnown(path string) *KnownFindings {
	k := &KnownFindings{}
	b, err := os.ReadFile(path)
	if err != nil {
		return k
	}
	if err := json.Unmarshal(b, k); err != nil {
		fmt.Fprintln(os.Stderr, "known_findings.json:", err)
		os.Exit(2)
	}
	return k
}

func (k *KnownFindings) match(prop string, v *Violation) *KnownFinding {
	for i := range k.Known {
		f := &k.Known[i]
		if f.Property == prop && f.Oracle == v.Oracle && f.Class == v.Class {
			return f
		}
	}
	return nil
}

// FoundViolation is a violation as reported by a worker.
type FoundViolation struct {
	Class   string `json:"class"`
	Oracle  string `json:"oracle"`
	Message string `json:"message"`
	Replay  string `json:"replay"`
	Seed    uint64 `json:"seed"`
	Ops     int    `json:"ops"`
}

// WorkerOut is what a worker process reports to the master.
type WorkerOut struct {
	Worker      int                    `json:"worker"`
	Runs        int                    `json:"runs"`
	Nontrivial  int                    `json:"nontrivial"`
	Aborted     int                    `json:"aborted"`
	Steps       int64                  `json:"steps"`
	SeamCalls   int64                  `json:"seam_calls"`
	Ops         int64                  `json:"ops"`
	Gens        int64                  `json:"gens"`
	Contended   int64                  `json:"contended"`
	Violations  []FoundViolation       `json:"violations"`
	Known       map[string]int         `json:"known"`
	KnownSample map[string]string      `json:"known_sample"`
	HarnessErrs []string               `json:"harness_errs"`
	Fired       Counters               `json:"fired"`
	Probes      Counters               `json:"probes"`
	Points      Counters               `json:"points"`
	CaseSigs    []uint64               `json:"case_sigs"`
	SchedSigs   []uint64               `json:"sched_sigs"`
	StateSigs   []uint64               `json:"state_sigs"`
	SigsCapped  bool                   `json:"sigs_capped"`
	Samples     []json.RawMessage      `json:"samples"`
	FirstSeed   uint64                 `json:"first_seed"`
	LastSeed    uint64                 `json:"last_seed"`
	WallS       float64                `json:"wall_s"`
	Extra       map[string]interface{} `json:"extra,omitempty"`
}

const sigCap = 300000

func hashStr(s string) uint64 {
	h := fnv.New64a()
	h.Write([]byte(s))
	return h.Sum64()
}

func setToSlice(m map[uint64]struct{}) []uint64 {
	out := make([]uint64, 0, len(m))
	for k := range m {
		out = append(out, k)
	}
	sort.Slice(out, func(i, j int) bool { return out[i] < out[j] })
	return out
}

// stuckInCodeUnderTest inspects the stack of a goroutine that never reached a
// yield point: if its innermost non-runtime frame is inside raft-wal (not the
// hook package, not the harness) it is blocked forever on a primitive of the
// code under test - a liveness violation, not harness trouble. It returns the
// blocking state and frame.
func stuckInCodeUnderTest(stack string) (string, bool) {
	lines := strings.Split(stack, "\n")
	if len(lines) < 2 {
		return "", false
	}
	state := lines[0]
	if i := strings.Index(state, "["); i >= 0 {
		state = strings.TrimSuffix(state[i+1:], "]:")
		if j := strings.Index(state, ","); j >= 0 {
			state = state[:j]
		}
	}
	blocked := false
	for _, p := range []string{"chan send", "chan receive", "select", "sync.Mutex.Lock", "semacquire", "sync.RWMutex.Lock", "sync.RWMutex.RLock", "sync.WaitGroup.Wait", "sync.Cond.Wait", "sleep"} {
		// also "chan receive (nil chan)", "select (no cases)"
		if strings.HasPrefix(state, p) {
			blocked = true
		}
	}
	if !blocked {
		return "", false
	}
	via := ""
	for _, ln := range lines[1:] {
		if strings.HasPrefix(ln, "\t") {
			continue
		}
		fn := ln
		switch {
		case strings.HasPrefix(fn, "runtime."), strings.HasPrefix(fn, "sync."), strings.HasPrefix(fn, "internal/"), strings.HasPrefix(fn, "time."), strings.HasPrefix(fn, "syscall."):
			continue
		case strings.HasPrefix(fn, "github.com/hashicorp/raft-wal/verifhook"):
			return "", false
		case strings.HasPrefix(fn, "github.com/hashicorp/raft-wal"):
			if i := strings.LastIndex(fn, "("); i > 0 {
				fn = fn[:i]
			}
			return state + " in " + strings.TrimPrefix(fn, "github.com/hashicorp/raft-wal") + via, true
		case strings.HasPrefix(fn, "verif/sim/"), strings.HasPrefix(fn, "main."):
			// the harness itself is what blocks
			return "", false
		default:
			// a dependency (bbolt waiting for its file lock, ...): raft-wal is
			// blocked if it is the caller; keep looking
			if via == "" {
				if i := strings.LastIndex(fn, "("); i > 0 {
					fn = fn[:i]
				}
				via = " via " + fn
			}
			continue
		}
	}
	return "", false
}

// libraryGoroutinePanic inspects the output of a process that died: a Go panic
// whose panicking goroutine runs raft-wal code (first frame after the runtime's
// panic frames) and was not started by the harness. Returns that function.
func libraryGoroutinePanic(out string) (string, bool) {
	i := strings.Index(out, "\npanic: ")
	if i < 0 && !strings.HasPrefix(out, "panic: ") {
		return "", false
	}
	rest := out[i+1:]
	j := strings.Index(rest, "\ngoroutine ")
	if j < 0 {
		return "", false
	}
	// the first goroutine listed after the panic message is the panicking one
	block := rest[j+1:]
	if k := strings.Index(block, "\n\n"); k > 0 {
		block = block[:k]
	}
	if !strings.Contains(block, "[running]") {
		return "", false
	}
	fn := ""
	for _, ln := range strings.Split(block, "\n")[1:] {
		if strings.HasPrefix(ln, "\t") || strings.HasPrefix(ln, "created by ") {
			continue
		}
		switch {
		case strings.HasPrefix(ln, "panic("), strings.HasPrefix(ln, "runtime."), strings.HasPrefix(ln, "sync."), strings.HasPrefix(ln, "internal/"):
			continue
		case strings.HasPrefix(ln, "github.com/hashicorp/raft-wal/verifhook"):
			return "", false
		case strings.HasPrefix(ln, "github.com/hashicorp/raft-wal"):
			if fn == "" {
				fn = ln
				if p := strings.LastIndex(fn, "("); p > 0 {
					fn = fn[:p]
				}
				fn = strings.TrimPrefix(fn, "github.com/hashicorp/raft-wal")
			}
		case strings.HasPrefix(ln, "verif/sim/"):
			if fn == "" {
				// the harness is innermost: its own bug
				return "", false
			}
		default:
			if fn == "" {
				// a dependency called by raft-wal (e.g. a nil logger): keep looking for the raft-wal caller
				continue
			}
		}
	}
	if fn == "" {
		return "", false
	}
	// a goroutine running a harness task would have been recovered by the task
	// wrapper; only goroutines created by the library reach this point
	if !strings.Contains(block, "created by github.com/hashicorp/raft-wal") {
		return "", false
	}
	return fn, true
}

func profileJudgesPanics(prop string) bool {
	if _, ok := customRunners[prop]; ok {
		return true
	}
	for _, o := range oraclesOf[prop] {
		if o == "no-panic" {
			return true
		}
	}
	return false
}

// SeedOf is the seed of run i of a batch.
func SeedOf(base uint64, i uint64) uint64 { return tape.Mix(base, i) }

// WorkerMain runs simulations until the budget is used.
func WorkerMain(args []string) {
	fs := flag.NewFlagSet("worker", flag.ExitOnError)
	prop := fs.String("prop", "", "property")
	tier := fs.String("tier", "quick", "tier")
	base := fs.Uint64("seed", 1, "VERIF_SEED")
	wi := fs.Int("worker", 0, "worker index")
	wn := fs.Int("workers", 1, "number of workers")
	budget := fs.Float64("budget", 10, "seconds")
	maxRuns := fs.Int("maxruns", 0, "stop after this many runs (0 = budget only)")
	out := fs.String("out", "", "output file")
	known := fs.String("known", "", "known findings file")
	replays := fs.String("replays", "replays", "directory for replay files")
	fs.Parse(args)
	kf := loadKnown(*known)
	start := time.Now()
	wo := &WorkerOut{Worker: *wi, Known: map[string]int{}, KnownSample: map[string]string{}, Fired: Counters{}, Probes: Counters{}, Points: Counters{}}
	caseSigs := map[uint64]struct{}{}
	schedSigs := map[uint64]struct{}{}
	stateSigs := map[uint64]struct{}{}
	seenClass := map[string]bool{}
	os.MkdirAll(*replays, 0o755)
	progress := filepath.Join(*replays, fmt.Sprintf(".current-%s-%d", *prop, *wi))
	defer os.Remove(progress)
	var curSeed uint64
	stuckFile := filepath.Join(*replays, fmt.Sprintf(".stuck-%s-%d", *prop, *wi))
	os.Remove(stuckFile)
	sched.OnStuck = func(desc, stack string) {
		if what, ok := stuckInCodeUnderTest(stack); ok {
			b, _ := json.Marshal(map[string]interface{}{"seed": curSeed, "what": what, "desc": desc, "stack": stack})
			os.WriteFile(stuckFile, b, 0o644)
		}
	}
	for k := uint64(0); ; k++ {
		if *maxRuns > 0 && wo.Runs >= *maxRuns {
			break
		}
		if time.Since(start).Seconds() > *budget {
			break
		}
		i := uint64(*wi) + k*uint64(*wn)
		seed := SeedOf(*base, i)
		if wo.Runs == 0 {
			wo.FirstSeed = seed
		}
		wo.LastSeed = seed
		curSeed = seed
		// lets the master attribute a worker that died (panic in a goroutine the
		// library started itself, which no harness wrapper can recover) to a seed
		os.WriteFile(progress, []byte(strconv.FormatUint(seed, 10)), 0o644)
		r := RunSeed(*prop, seed, *tier)
		wo.Runs++
		st := r.Stats
		if st != nil {
			wo.Steps += int64(st.Steps)
			wo.SeamCalls += int64(st.SeamCalls)
			wo.Ops += int64(st.Ops)
			wo.Gens += int64(st.Gens)
			wo.Contended += int64(st.Contended)
			wo.Fired.Merge(st.Fired)
			wo.Probes.Merge(st.Probes)
			wo.Points.Merge(st.Points)
			if st.Nontrivial {
				wo.Nontrivial++
				if len(caseSigs) < sigCap {
					caseSigs[hashStr(st.CaseSig)] = struct{}{}
				} else {
					wo.SigsCapped = true
				}
			}
			if st.Contended > 0 && len(schedSigs) < sigCap {
				schedSigs[st.Sig] = struct{}{}
			}
			for _, h := range st.StateSigs {
				if len(stateSigs) < sigCap {
					stateSigs[h] = struct{}{}
				}
			}
		}
		if len(wo.Samples) < 2 && (st == nil || st.Nontrivial || wo.Runs > 50) {
			b, _ := json.Marshal(map[string]interface{}{"seed": seed, "config": r.Config, "plan": r.Plan, "case": caseOf(st), "tape_len": len(r.Tape), "log_tail": tail(r.Log, 12)})
			wo.Samples = append(wo.Samples, b)
		}
		if r.HarnessErr != "" {
			wo.HarnessErrs = append(wo.HarnessErrs, fmt.Sprintf("seed %d: %s", seed, r.HarnessErr))
			rp := r.Replay(*prop)
			rp.Note = "harness error: " + r.HarnessErr
			rp.Write(filepath.Join(*replays, fmt.Sprintf("%s-harness-%d.json", *prop, seed)))
			if len(wo.HarnessErrs) >= 3 {
				break
			}
			continue
		}
		if r.Viol == nil {
			continue
		}
		if f := kf.match(*prop, r.Viol); f != nil {
			wo.Known[f.Class]++
			if _, ok := wo.KnownSample[f.Class]; !ok {
				p := filepath.Join(*replays, fmt.Sprintf("%s-known-%d.json", *prop, seed))
				r.Replay(*prop).Write(p)
				wo.KnownSample[f.Class] = p
			}
			continue
		}
		if seenClass[r.Viol.Class] {
			continue
		}
		seenClass[r.Viol.Class] = true
		rp := r.Replay(*prop)
		small := Shrink(rp, 15*time.Second)
		p := filepath.Join(*replays, fmt.Sprintf("%s-%d.json", *prop, seed))
		small.Write(p)
		if small.Shrunk {
			rp.Write(filepath.Join(*replays, fmt.Sprintf("%s-%d.orig.json", *prop, seed)))
		}
		wo.Violations = append(wo.Violations, FoundViolation{Class: small.Violation.Class, Oracle: small.Violation.Oracle, Message: small.Violation.Message, Replay: p, Seed: seed, Ops: len(small.Plan.Ops)})
		if len(wo.Violations) >= 3 {
			break
		}
	}
	wo.CaseSigs = setToSlice(caseSigs)
	wo.SchedSigs = setToSlice(schedSigs)
	wo.StateSigs = setToSlice(stateSigs)
	wo.WallS = time.Since(start).Seconds()
	b, _ := json.Marshal(wo)
	if *out == "" {
		os.Stdout.Write(b)
	} else {
		os.WriteFile(*out, b, 0o644)
	}
}

func caseOf(st *RunStats) string {
	if st == nil {
		return ""
	}
	return st.CaseSig
}

func tail(l []string, n int) []string {
	if len(l) > n {
		return l[len(l)-n:]
	}
	return l
}

// ReplayMain re-executes a replay file: exit 1 + VIOLATION line when the
// violation reproduces, 0 when the run is clean, 2 on harness trouble.
func ReplayMain(args []string) {
	fs := flag.NewFlagSet("replay", flag.ExitOnError)
	v := fs.Bool("v", false, "verbose")
	tr := fs.Bool("trace", false, "dump scheduling decisions")
	fs.Parse(args)
	if fs.NArg() < 1 {
		fmt.Fprintln(os.Stderr, "usage: walsim replay [-v] <file>")
		os.Exit(2)
	}
	TraceAll = *tr
	rp, err := LoadReplay(fs.Arg(0))
	if err != nil {
		fmt.Fprintln(os.Stderr, err)
		os.Exit(2)
	}
	if rp.Golden != "" {
		if d := GoldenCheckOne(rp.Golden); d != "" {
			fmt.Printf("class=%s\ngolden %s: %s\n", rp.Violation.Class, rp.Golden, d)
			fmt.Printf("VIOLATION property=%s replay=%s\n", rp.Property, fs.Arg(0))
			os.Exit(1)
		}
		fmt.Println("no violation")
		os.Exit(0)
	}
	if rp.Race && !sched.EdgeFree {
		replayRace(rp, fs.Arg(0))
	}
	if rp.Child && os.Getenv("WALSIM_REPLAY_CHILD") == "" {
		replayInChild(rp, fs.Arg(0))
	}
	sched.OnStuck = func(desc, stack string) {
		if what, ok := stuckInCodeUnderTest(stack); ok {
			fmt.Printf("class=blocked-forever:%s\n%s\n%s\n", what, desc, stack)
			fmt.Printf("VIOLATION property=%s replay=%s\n", rp.Property, fs.Arg(0))
			os.Exit(1)
		}
	}
	r := RunReplay(rp)
	if *v {
		for _, l := range r.Log {
			fmt.Println("  ", l)
		}
	}
	if r.HarnessErr != "" {
		fmt.Println("HARNESS ERROR:", r.HarnessErr)
		os.Exit(2)
	}
	if r.Viol == nil {
		fmt.Println("no violation")
		os.Exit(0)
	}
	fmt.Printf("class=%s\n%s\n", r.Viol.Class, r.Viol.Error())
	fmt.Printf("VIOLATION property=%s replay=%s\n", rp.Property, fs.Arg(0))
	os.Exit(1)
}

// replayInChild re-executes a replay whose violation is the death of the whole
// process (a panic in a goroutine the library started).
func replayInChild(rp *Replay, file string) {
	exe, _ := os.Executable()
	cmd := exec.Command(exe, "replay", file)
	cmd.Env = append(os.Environ(), "WALSIM_REPLAY_CHILD=1")
	ob, _ := cmd.CombinedOutput()
	code := -1
	if cmd.ProcessState != nil {
		code = cmd.ProcessState.ExitCode()
	}
	if fn, ok := libraryGoroutinePanic(string(ob)); ok && code == 2 {
		fmt.Printf("class=process-killed-by-panic:%s\n%s\n", fn, tailBytes(ob, 3000))
		fmt.Printf("VIOLATION property=%s replay=%s\n", rp.Property, file)
		os.Exit(1)
	}
	if code == 0 {
		fmt.Println("no violation")
		os.Exit(0)
	}
	fmt.Printf("replay child ended with exit code %d:\n%s\n", code, tailBytes(ob, 3000))
	if code == 1 {
		os.Exit(1)
	}
	os.Exit(2)
}

// ---------------------------------------------------------------- master

// PropSpec describes how a property's check is run and reported.
type PropSpec struct {
	ID             string
	Rule           string // how cases are generated and what makes one distinct / non-trivial
	Components     string // real vs stub
	Assumptions    []string
	RequiredProbes []string // must be > 0 or the check is not exercising what it claims (exit 2)
	RequiredFired  []string
	QuickS         float64
	ThoroughS      float64
	Workers        int
	MemLimitMB     int
	RaceWorkers    int // > 0: this many processes of the race build (edge-free hand-off) run beside the normal workers
}

var propSpecs = map[string]*PropSpec{}

func envFloat(name string, def float64) float64 {
	if s := os.Getenv(name); s != "" {
		if f, err := strconv.ParseFloat(s, 64); err == nil {
			return f
		}
	}
	return def
}

// CheckMain is the master: it fans out workers, merges their reports, writes
// the evidence file and prints the verdict lines.
func CheckMain(args []string) {
	fs := flag.NewFlagSet("check", flag.ExitOnError)
	prop := fs.String("prop", "", "property id")
	tier := fs.String("tier", "quick", "quick|thorough")
	root := fs.String("root", "/verif", "verif root")
	racebin := fs.String("racebin", "", "race build of walsim (edge-free hand-off); required by properties with a race stage")
	fs.Parse(args)
	spec := propSpecs[*prop]
	if spec == nil {
		fmt.Fprintf(os.Stderr, "no check registered for %s\n", *prop)
		os.Exit(2)
	}
	if t := os.Getenv("VERIF_TIER"); t == "quick" || t == "thorough" {
		*tier = t
	}
	seed := uint64(20240917)
	if s := os.Getenv("VERIF_SEED"); s != "" {
		if v, err := strconv.ParseUint(s, 10, 64); err == nil {
			seed = v
		} else if v, err := strconv.ParseInt(s, 10, 64); err == nil {
			seed = uint64(v)
		}
	}
	budget := spec.QuickS
	if *tier == "thorough" {
		budget = spec.ThoroughS
	}
	budget = envFloat("VERIF_BUDGET_S", budget)
	workers := spec.Workers
	if workers == 0 {
		workers = 16
	}
	if s := os.Getenv("VERIF_WORKERS"); s != "" {
		if v, err := strconv.Atoi(s); err == nil && v > 0 {
			workers = v
		}
	}
	start := time.Now()
	exe, _ := os.Executable()
	replays := filepath.Join(*root, "replays")
	os.MkdirAll(replays, 0o755)
	tmp, err := os.MkdirTemp(replays, ".run-")
	if err != nil {
		fmt.Fprintln(os.Stderr, err)
		os.Exit(2)
	}
	defer os.RemoveAll(tmp)
	knownPath := filepath.Join(*root, "known_findings.json")
	type wproc struct {
		cmd  *exec.Cmd
		out  string
		errf *os.File
	}
	var procs []wproc
	for i := 0; i < workers; i++ {
		out := filepath.Join(tmp, fmt.Sprintf("w%d.json", i))
		cmd := exec.Command(exe, "worker", "-prop", *prop, "-tier", *tier, "-seed", strconv.FormatUint(seed, 10),
			"-worker", strconv.Itoa(i), "-workers", strconv.Itoa(workers), "-budget", fmt.Sprint(budget),
			"-out", out, "-known", knownPath, "-replays", replays)
		ef, _ := os.Create(filepath.Join(tmp, fmt.Sprintf("w%d.err", i)))
		cmd.Stderr = ef
		cmd.Stdout = ef
		if err := cmd.Start(); err != nil {
			fmt.Fprintln(os.Stderr, "start worker:", err)
			os.Exit(2)
		}
		procs = append(procs, wproc{cmd, out, ef})
	}
	raceProcs := startRaceWorkers(spec, *racebin, *prop, *tier, seed, budget, tmp)
	merged := &WorkerOut{Known: map[string]int{}, KnownSample: map[string]string{}, Fired: Counters{}, Probes: Counters{}, Points: Counters{}}
	caseSigs := map[uint64]struct{}{}
	schedSigs := map[uint64]struct{}{}
	stateSigs := map[uint64]struct{}{}
	var seeds []uint64
	trouble := []string{}
	for i, p := range procs {
		werr := p.cmd.Wait()
		p.errf.Close()
		b, rerr := os.ReadFile(p.out)
		if sb, serr := os.ReadFile(filepath.Join(replays, fmt.Sprintf(".stuck-%s-%d", *prop, i))); serr == nil {
			os.Remove(filepath.Join(replays, fmt.Sprintf(".stuck-%s-%d", *prop, i)))
			var st struct {
				Seed  uint64 `json:"seed"`
				What  string `json:"what"`
				Desc  string `json:"desc"`
				Stack string `json:"stack"`
			}
			if json.Unmarshal(sb, &st) == nil && st.Seed != 0 {
				cfg, plan := Generate(*prop, st.Seed, *tier)
				rp := &Replay{Property: *prop, Seed: st.Seed, Config: cfg, Plan: plan, FromSeed: true,
					Violation: &Violation{Property: *prop, Oracle: "never-blocks-forever", Class: "blocked-forever:" + st.What, Message: "a task never returned: " + st.What + "; scheduler view: " + st.Desc + "\n" + st.Stack},
					Note:      "the run blocks a goroutine forever on a primitive of the code under test; replay re-executes the seed and reports the same block after the watchdog interval"}
				path := filepath.Join(replays, fmt.Sprintf("%s-%d.json", *prop, st.Seed))
				rp.Write(path)
				merged.Violations = append(merged.Violations, FoundViolation{Class: rp.Violation.Class, Oracle: rp.Violation.Oracle, Message: rp.Violation.Message, Replay: path, Seed: st.Seed})
				continue
			}
		}
		if werr != nil || rerr != nil {
			eb, _ := os.ReadFile(filepath.Join(tmp, fmt.Sprintf("w%d.err", i)))
			cur, _ := os.ReadFile(filepath.Join(replays, fmt.Sprintf(".current-%s-%d", *prop, i)))
			if fn, ok := libraryGoroutinePanic(string(eb)); ok && profileJudgesPanics(*prop) {
				if sd, perr := strconv.ParseUint(strings.TrimSpace(string(cur)), 10, 64); perr == nil && sd != 0 {
					cfg, plan := Generate(*prop, sd, *tier)
					class := "process-killed-by-panic:" + fn
					rp := &Replay{Property: *prop, Seed: sd, Config: cfg, Plan: plan, FromSeed: true, Child: true,
						Violation: &Violation{Property: *prop, Oracle: "no-panic", Class: class, Message: "a goroutine started by raft-wal itself panicked and took the process down:\n" + tailBytes(eb, 3000)},
						Note:      "replay re-executes the seed in a child process and reports the same fatal panic"}
					path := filepath.Join(replays, fmt.Sprintf("%s-fatal-%d.json", *prop, sd))
					rp.Write(path)
					merged.Violations = append(merged.Violations, FoundViolation{Class: class, Oracle: "no-panic", Message: rp.Violation.Message, Replay: path, Seed: sd})
					os.Remove(filepath.Join(replays, fmt.Sprintf(".current-%s-%d", *prop, i)))
					continue
				}
			}
			msg := fmt.Sprintf("worker %d died: %v (near seed %s)\n%s", i, werr, string(cur), tailBytes(eb, 6000))
			trouble = append(trouble, msg)
			continue
		}
		var wo WorkerOut
		if err := json.Unmarshal(b, &wo); err != nil {
			trouble = append(trouble, fmt.Sprintf("worker %d output: %v", i, err))
			continue
		}
		merged.Runs += wo.Runs
		merged.Nontrivial += wo.Nontrivial
		merged.Steps += wo.Steps
		merged.SeamCalls += wo.SeamCalls
		merged.Ops += wo.Ops
		merged.Gens += wo.Gens
		merged.Contended += wo.Contended
		merged.Fired.Merge(wo.Fired)
		merged.Probes.Merge(wo.Probes)
		merged.Points.Merge(wo.Points)
		merged.Violations = append(merged.Violations, wo.Violations...)
		merged.HarnessErrs = append(merged.HarnessErrs, wo.HarnessErrs...)
		for k, n := range wo.Known {
			merged.Known[k] += n
		}
		for k, s := range wo.KnownSample {
			if _, ok := merged.KnownSample[k]; !ok {
				merged.KnownSample[k] = s
			}
		}
		for _, h := range wo.CaseSigs {
			caseSigs[h] = struct{}{}
		}
		for _, h := range wo.SchedSigs {
			schedSigs[h] = struct{}{}
		}
		for _, h := range wo.StateSigs {
			stateSigs[h] = struct{}{}
		}
		merged.SigsCapped = merged.SigsCapped || wo.SigsCapped
		if len(merged.Samples) < 3 {
			merged.Samples = append(merged.Samples, wo.Samples...)
		}
		seeds = append(seeds, wo.FirstSeed)
		for k, v := range wo.Extra {
			if merged.Extra == nil {
				merged.Extra = map[string]interface{}{}
			}
			if f, ok := v.(float64); ok {
				if g, ok := merged.Extra[k].(float64); ok {
					merged.Extra[k] = f + g
				} else {
					merged.Extra[k] = f
				}
			}
		}
	}
	raceInfo := collectRaceWorkers(raceProcs, *prop, *tier, replays, merged, &trouble)
	goldenInfo := map[string]interface{}{}
	if *prop == "C09" {
		bad, n := GoldenCheckAll(*root)
		goldenInfo["golden_directories_checked"] = n
		goldenInfo["golden_directories_failed"] = len(bad)
		names := make([]string, 0, len(bad))
		for name := range bad {
			names = append(names, name)
		}
		sort.Strings(names)
		for _, name := range names {
			rp := &Replay{Property: "C09", Golden: filepath.Join(*root, "golden", name),
				Violation: &Violation{Property: "C09", Oracle: "golden", Class: "golden:" + name, Message: bad[name]}}
			path := filepath.Join(replays, "C09-golden-"+name+".json")
			rp.Write(path)
			merged.Violations = append(merged.Violations, FoundViolation{Class: "golden:" + name, Oracle: "golden", Message: "directory written by the pinned version: " + bad[name], Replay: path})
		}
		if n == 0 {
			trouble = append(trouble, "no golden directories found under "+filepath.Join(*root, "golden"))
		}
	}
	wall := time.Since(start).Seconds()

	// validate each reported violation by replaying it in a fresh process
	kf := loadKnown(knownPath)
	type verdict struct {
		FoundViolation
		Reproduced bool
	}
	var verdicts []verdict
	seen := map[string]bool{}
	for _, v := range merged.Violations {
		if seen[v.Class] {
			continue
		}
		seen[v.Class] = true
		cmd := exec.Command(exe, "replay", v.Replay)
		ob, _ := cmd.CombinedOutput()
		repro := cmd.ProcessState != nil && cmd.ProcessState.ExitCode() == 1 && strings.Contains(string(ob), "class="+v.Class+"\n")
		verdicts = append(verdicts, verdict{v, repro})
	}

	ev := map[string]interface{}{
		"property_id": *prop,
		"tier":        *tier,
		"seed":        int64(seed & 0x7fffffffffffffff),
		"level":       "exploration",
		"wall_s":      wall,
		"violations":  len(verdicts),
		"assumptions": spec.Assumptions,
	}
	distinct := len(caseSigs)
	samples := []interface{}{}
	for _, s := range merged.Samples {
		var x interface{}
		json.Unmarshal(s, &x)
		samples = append(samples, x)
	}
	if len(samples) == 0 {
		samples = append(samples, "no sample recorded")
	}
	runsPerHour := 0.0
	if wall > 0 {
		runsPerHour = float64(merged.Runs) / wall * 3600
	}
	cov := map[string]interface{}{
		"evaluations":              merged.Runs,
		"distinct_nontrivial":      distinct,
		"rule":                     spec.Rule,
		"samples":                  samples,
		"nontrivial_runs":          merged.Nontrivial,
		"distinct_capped":          merged.SigsCapped,
		"runs_per_hour":            runsPerHour,
		"seeds_per_hour":           runsPerHour,
		"seed_derivation":          "run i uses seed mix(VERIF_SEED, i); worker w runs i = w, w+W, w+2W, ...",
		"first_seeds":              seeds,
		"workers":                  workers,
		"budget_s":                 budget,
		"scheduler_steps":          merged.Steps,
		"seam_calls":               merged.SeamCalls,
		"api_ops":                  merged.Ops,
		"process_generations":      merged.Gens,
		"contended_decisions":      merged.Contended,
		"distinct_interleavings":   len(schedSigs),
		"distinct_abstract_states": len(stateSigs),
		"faults_fired":             merged.Fired,
		"probes":                   merged.Probes,
		"hook_points_passed":       merged.Points,
		"simulated_time":           "n/a: nothing in scope has a timer or deadline that changes behaviour; logical steps are counted instead (scheduler_steps, seam_calls)",
		"components":               spec.Components,
		"known_findings_hit":       merged.Known,
		"harness_errors":           merged.HarnessErrs,
		"exhaustive":               false,
	}
	for k, v := range merged.Extra {
		cov[k] = v
	}
	for k, v := range goldenInfo {
		cov[k] = v
	}
	for k, v := range raceInfo {
		cov[k] = v
	}
	ev["coverage"] = cov
	evDir := filepath.Join(*root, "evidence")
	if d := os.Getenv("VERIF_EVIDENCE_DIR"); d != "" {
		// runs against deliberately broken trees (scripts/mutant.sh) must not
		// overwrite the evidence of the unchanged tree
		evDir = d
	}
	os.MkdirAll(evDir, 0o755)
	eb, _ := json.MarshalIndent(ev, "", " ")
	if err := os.WriteFile(filepath.Join(evDir, *prop+".json"), eb, 0o644); err != nil {
		fmt.Fprintln(os.Stderr, "write evidence:", err)
		os.Exit(2)
	}

	fmt.Printf("%s %s: %d runs in %.1fs on %d workers (%.0f runs/h), %d distinct non-trivial cases, %d interleavings, faults fired: %d kinds\n",
		*prop, *tier, merged.Runs, wall, workers, runsPerHour, distinct, len(schedSigs), len(merged.Fired))
	exit := 0
	for _, f := range kf.Known {
		if f.Property != *prop {
			continue
		}
		n := merged.Known[f.Class]
		fmt.Printf("KNOWN-FINDING: property=%s %s [oracle=%s class=%s; hit %d times this run; sample replay %s]\n", *prop, f.What, f.Oracle, f.Class, n, merged.KnownSample[f.Class])
	}
	for _, v := range verdicts {
		if !v.Reproduced {
			trouble = append(trouble, fmt.Sprintf("violation class %q (seed %d) did not reproduce from its replay file %s in a fresh process: nondeterminism in the harness", v.Class, v.Seed, v.Replay))
			continue
		}
		fmt.Printf("  %s/%s [%s] (minimised to %d ops): %s\n", *prop, v.Oracle, v.Class, v.Ops, firstLine(v.Message))
		fmt.Printf("VIOLATION property=%s replay=%s\n", *prop, v.Replay)
		exit = 1
	}
	if exit == 1 {
		os.Exit(1)
	}
	if len(merged.HarnessErrs) > 0 {
		trouble = append(trouble, merged.HarnessErrs...)
	}
	for _, p := range spec.RequiredProbes {
		if merged.Probes[p] == 0 {
			trouble = append(trouble, fmt.Sprintf("probe %q stayed at zero: the workload is not exercising what the check claims", p))
		}
	}
	for _, p := range spec.RequiredFired {
		if merged.Fired[p] == 0 {
			trouble = append(trouble, fmt.Sprintf("fault kind %q never fired", p))
		}
	}
	if merged.Runs == 0 {
		trouble = append(trouble, "no runs executed")
	}
	if len(trouble) > 0 {
		for _, t := range trouble {
			fmt.Println("CHECK-TROUBLE:", t)
		}
		os.Exit(2)
	}
	fmt.Printf("OK property=%s held on everything explored\n", *prop)
}

func firstLine(s string) string {
	if i := strings.IndexByte(s, '\n'); i >= 0 {
		return s[:i]
	}
	return s
}

func tailBytes(b []byte, n int) string {
	if len(b) > n {
		b = b[len(b)-n:]
	}
	return string(b)
}
