package engine

import (
	"time"
)

// Shrink minimises a failing replay while the same (oracle, cause class)
// persists. Every candidate is re-executed from scratch with the recorded tape
// (choices beyond the end of the tape are 0, the simplest choice).
func Shrink(orig *Replay, budget time.Duration) *Replay {
	if orig.Violation == nil {
		return orig
	}
	deadline := time.Now().Add(budget)
	wantClass, wantOracle := orig.Violation.Class, orig.Violation.Oracle
	best := *orig
	tries := 0
	try := func(c *Replay) bool {
		if time.Now().After(deadline) {
			return false
		}
		tries++
		r := RunReplay(c)
		if r.HarnessErr != "" || r.Viol == nil {
			return false
		}
		if r.Viol.Class != wantClass || r.Viol.Oracle != wantOracle {
			return false
		}
		// keep the tape actually consumed: replay of the candidate is then exact
		c.Tape = r.Tape
		c.Violation = r.Viol
		c.Log = r.Log
		return true
	}
	// normalise: replaying the original must fail the same way, otherwise give up
	first := best
	if !try(&first) {
		return orig
	}
	best = first

	// 1. ddmin over plan ops
	n := 2
	for len(best.Plan.Ops) > 1 && time.Now().Before(deadline) {
		ops := best.Plan.Ops
		chunk := (len(ops) + n - 1) / n
		reduced := false
		for start := 0; start < len(ops); start += chunk {
			end := start + chunk
			if end > len(ops) {
				end = len(ops)
			}
			cand := best
			cand.Plan.Ops = append(append([]OpSpec{}, ops[:start]...), ops[end:]...)
			if len(cand.Plan.Ops) == 0 {
				continue
			}
			if try(&cand) {
				best = cand
				reduced = true
				if n > 2 {
					n--
				}
				break
			}
		}
		if !reduced {
			if chunk == 1 {
				break
			}
			n *= 2
			if n > len(ops) {
				n = len(ops)
			}
		}
	}

	// 2. simplify ops: fewer / smaller entries, drop nested faults
	for i := range best.Plan.Ops {
		if time.Now().After(deadline) {
			break
		}
		op := best.Plan.Ops[i]
		if op.Kind == "append" {
			for op.N > 1 {
				cand := best
				cand.Plan.Ops = append([]OpSpec{}, best.Plan.Ops...)
				o2 := op
				o2.N = op.N - 1
				if len(o2.Sizes) > o2.N {
					o2.Sizes = o2.Sizes[:o2.N]
				}
				if len(o2.Ext) > o2.N {
					o2.Ext = o2.Ext[:o2.N]
				}
				cand.Plan.Ops[i] = o2
				if !try(&cand) {
					break
				}
				best = cand
				op = o2
			}
			cand := best
			cand.Plan.Ops = append([]OpSpec{}, best.Plan.Ops...)
			o2 := op
			o2.Sizes = make([]int, len(op.Sizes))
			for j := range o2.Sizes {
				o2.Sizes[j] = 8
			}
			o2.Ext = nil
			cand.Plan.Ops[i] = o2
			if try(&cand) {
				best = cand
			}
		}
		if op.Fault != nil && op.Fault.Nested != nil {
			cand := best
			cand.Plan.Ops = append([]OpSpec{}, best.Plan.Ops...)
			o2 := best.Plan.Ops[i]
			f := *o2.Fault
			f.Nested = nil
			o2.Fault = &f
			cand.Plan.Ops[i] = o2
			if try(&cand) {
				best = cand
			}
		}
	}

	// 3. simplify the tape: truncate (tail becomes zeros), then zero single choices
	for cut := len(best.Tape) / 2; cut >= 1 && time.Now().Before(deadline); cut /= 2 {
		for len(best.Tape) >= cut {
			cand := best
			cand.Tape = append([]uint32{}, best.Tape[:len(best.Tape)-cut]...)
			if !try(&cand) {
				break
			}
			// try() stored the tape as consumed (zeros appended): stop if no progress
			nz := 0
			for _, v := range cand.Tape {
				if v != 0 {
					nz++
				}
			}
			bz := 0
			for _, v := range best.Tape {
				if v != 0 {
					bz++
				}
			}
			if nz >= bz {
				break
			}
			best = cand
		}
	}
	for i := 0; i < len(best.Tape) && i < 400 && time.Now().Before(deadline); i++ {
		if best.Tape[i] == 0 {
			continue
		}
		cand := best
		cand.Tape = append([]uint32{}, best.Tape...)
		cand.Tape[i] = 0
		if try(&cand) {
			best = cand
		}
	}
	best.Shrunk = len(best.Plan.Ops) < len(orig.Plan.Ops) || len(best.Tape) < len(orig.Tape)
	best.Seed = orig.Seed
	return &best
}
