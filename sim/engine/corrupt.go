package engine

import (
	"encoding/binary"
	"encoding/json"
	"fmt"
	"runtime"
	"sort"
	"strings"

	"github.com/hashicorp/raft"
	wal "github.com/hashicorp/raft-wal"
	"github.com/hashicorp/raft-wal/segment"
	"github.com/hashicorp/raft-wal/types"
	"verif/sim/refformat"
)

func init() {
	generators["C11"] = func(p *pg) (Config, Plan) { return p.genC11() }
}

// genC11 builds a valid directory with a fault-free plan; the damage and the
// probing are drawn from the tape at run time.
func (p *pg) genC11() (Config, Plan) {
	c := p.baseConfig("C11")
	c.Strict = false
	c.SegSize = []int{64, 128, 200, 256, 512, 1024, 4096}[p.r.Intn(7)]
	kinds := []string{"append", "append", "append", "append", "deltail", "delhead", "reopen", "quiesce"}
	mix := p.swarmMix(kinds, "append")
	var plan Plan
	plan.Ops = append(plan.Ops, p.appendOp(), p.appendOp())
	n := 2 + p.r.Intn(14)
	for i := 0; i < n; i++ {
		op := p.draw(mix)
		if op.Kind == "append" {
			for j := range op.Sizes {
				if op.Sizes[j] > 70000 {
					op.Sizes[j] = 100
				}
			}
		}
		plan.Ops = append(plan.Ops, op)
	}
	plan.Ops = append(plan.Ops, OpSpec{Kind: "quiesce"})
	return c, plan
}

type damage struct {
	kind      string
	file      string
	sealed    bool
	mustFail  bool // Open must not succeed (silent shortening otherwise)
	totalSize int
}

// frameOffsets lists interesting offsets of a valid segment image.
func frameOffsets(b []byte) (hdrs []int, commits []int, index []int) {
	seg := refformat.Decode(b)
	for _, bt := range seg.Batches {
		for _, o := range bt.Offsets {
			hdrs = append(hdrs, int(o))
		}
		if bt.HasIndex {
			index = append(index, int(bt.IndexPayloadOffset)-8)
		}
		commits = append(commits, int(bt.End)-8)
	}
	return
}

// applyDamage mutates the stored bytes of one file (or the metadata record).
func (ex *Exec) applyDamage() *damage {
	st, ok := ex.persistedState()
	if !ok || len(st.Segments) == 0 {
		return nil
	}
	tp := ex.tape
	d := &damage{}
	// metadata tampering
	if tp.Choose(6) == 0 {
		d.kind = "meta:" + ex.tamperMeta(&st)
		return d
	}
	si := st.Segments[tp.Choose(len(st.Segments))]
	name := segment.FileName(si)
	d.file = name
	d.sealed = !si.SealTime.IsZero()
	ino := ex.disk.Lookup(name)
	if ino == nil {
		return nil
	}
	b := append([]byte(nil), ino.Vol...)
	hdrs, commits, index := frameOffsets(b)
	pickPos := func() int {
		if len(b) == 0 {
			return 0
		}
		switch tp.Choose(6) {
		case 0:
			return tp.Choose(32) % len(b)
		case 1:
			if len(hdrs) > 0 {
				return (hdrs[tp.Choose(len(hdrs))] + tp.Choose(8)) % len(b)
			}
		case 2:
			if len(commits) > 0 {
				return (commits[tp.Choose(len(commits))] + tp.Choose(8)) % len(b)
			}
		case 3:
			if len(index) > 0 {
				return (index[tp.Choose(len(index))] + tp.Choose(24)) % len(b)
			}
		case 4:
			if len(hdrs) > 0 {
				// inside a payload
				return (hdrs[tp.Choose(len(hdrs))] + 8 + tp.Choose(40)) % len(b)
			}
		}
		return tp.Choose(len(b))
	}
	switch tp.Choose(13) {
	case 0:
		d.kind = "bitflip"
		if len(b) > 0 {
			p := pickPos()
			b[p] ^= 1 << uint(tp.Choose(8))
		}
	case 1:
		d.kind = "zero-run"
		if len(b) > 0 {
			p := pickPos()
			n := 1 + tp.Choose(64)
			for i := p; i < p+n && i < len(b); i++ {
				b[i] = 0
			}
		}
	case 2:
		d.kind = "truncate"
		n := 0
		switch tp.Choose(4) {
		case 0:
			n = tp.Choose(32) // below the header
		case 1:
			n = pickPos()
		default:
			if len(b) > 0 {
				n = tp.Choose(len(b))
			}
		}
		if n > len(b) {
			n = len(b)
		}
		b = b[:n]
		if d.sealed && n < 32 {
			d.mustFail = true
		}
	case 3:
		d.kind = "extend-garbage"
		n := 1 + tp.Choose(200)
		for i := 0; i < n; i++ {
			b = append(b, byte(tp.Choose(256)))
		}
	case 4:
		d.kind = "length-field"
		if len(hdrs) > 0 {
			o := hdrs[tp.Choose(len(hdrs))]
			v := []uint32{0xffffffff, 0xfffffff0, 64<<20 + 1, 64 << 20, 1 << 31, uint32(len(b)), uint32(len(b) * 2), 0}[tp.Choose(8)]
			binary.LittleEndian.PutUint32(b[o+4:], v)
		}
	case 5:
		d.kind = "frame-type"
		if len(hdrs)+len(commits) > 0 {
			all := append(append([]int{}, hdrs...), commits...)
			o := all[tp.Choose(len(all))]
			b[o] = byte(tp.Choose(6))
		}
	case 6:
		d.kind = "index-entry"
		if len(index) > 0 {
			o := index[tp.Choose(len(index))] + 8
			if o+4 <= len(b) {
				binary.LittleEndian.PutUint32(b[o:], []uint32{0, 0xffffffff, uint32(len(b)), uint32(len(b) - 4), 7, 33}[tp.Choose(6)])
			}
		}
	case 7:
		d.kind = "crc"
		if len(commits) > 0 {
			o := commits[tp.Choose(len(commits))]
			b[o+4+tp.Choose(4)] ^= byte(1 + tp.Choose(255))
		}
	case 8:
		d.kind = "header-field"
		if len(b) >= 32 {
			switch tp.Choose(5) {
			case 0:
				b[tp.Choose(4)] ^= 0xff // magic
			case 1:
				b[7] = byte(1 + tp.Choose(255)) // version
			case 2:
				binary.LittleEndian.PutUint64(b[8:], si.BaseIndex+uint64(1+tp.Choose(3)))
				d.mustFail = d.sealed
			case 3:
				binary.LittleEndian.PutUint64(b[16:], si.ID+uint64(1+tp.Choose(3)))
				d.mustFail = d.sealed
			case 4:
				binary.LittleEndian.PutUint64(b[24:], si.Codec+1)
				d.mustFail = d.sealed
			}
		}
	case 9:
		d.kind = "random-bytes"
		n := tp.Choose(len(b) + 64)
		b = make([]byte, n)
		for i := range b {
			b[i] = byte(tp.Choose(256))
		}
	case 10:
		d.kind = "other-segments-file"
		if len(st.Segments) > 1 {
			o := st.Segments[tp.Choose(len(st.Segments))]
			if o.ID != si.ID {
				if oi := ex.disk.Lookup(segment.FileName(o)); oi != nil && len(oi.Vol) >= 32 {
					b = append([]byte(nil), oi.Vol...)
					d.mustFail = d.sealed
				}
			}
		}
	case 11:
		d.kind = "delete-file"
		ex.disk.Unlink(name)
		ex.disk.SyncDir()
		d.mustFail = d.sealed
		return d
	case 12:
		d.kind = "garbage-frame-after-commit"
		if len(commits) > 0 {
			o := commits[len(commits)-1] + 8
			for i := 0; i < 16 && o+i < len(b); i++ {
				b[o+i] = byte(tp.Choose(256))
			}
		}
	}
	ino.SetContent(b)
	return d
}

func (ex *Exec) tamperMeta(st *types.PersistentState) string {
	tp := ex.tape
	kind := ""
	raw := ex.meta.Raw
	switch tp.Choose(9) {
	case 0:
		kind = "invalid-json"
		if len(raw) > 2 {
			// the record's length depends on wall-clock stamps (CreateTime digits):
			// draw a fraction, not an offset, so the tape is the same in every run
			raw = raw[:tp.Choose(1000)*len(raw)/1000]
		}
		ex.meta.Raw = raw
		return kind
	case 1:
		kind = "reorder"
		if len(st.Segments) > 1 {
			st.Segments[0], st.Segments[len(st.Segments)-1] = st.Segments[len(st.Segments)-1], st.Segments[0]
		}
	case 2:
		kind = "index-start"
		i := tp.Choose(len(st.Segments))
		st.Segments[i].IndexStart = []uint64{0, 1, 32, 1 << 31, 1<<32 - 4, ^uint64(0)}[tp.Choose(6)]
	case 3:
		kind = "min-index"
		i := tp.Choose(len(st.Segments))
		st.Segments[i].MinIndex = []uint64{0, st.Segments[i].BaseIndex + 1000, ^uint64(0)}[tp.Choose(3)]
	case 4:
		kind = "max-index"
		i := tp.Choose(len(st.Segments))
		st.Segments[i].MaxIndex = []uint64{0, st.Segments[i].BaseIndex + 100000, ^uint64(0), 1}[tp.Choose(4)]
	case 5:
		kind = "base-index"
		i := tp.Choose(len(st.Segments))
		st.Segments[i].BaseIndex += uint64(1 + tp.Choose(5))
	case 6:
		kind = "codec"
		i := tp.Choose(len(st.Segments))
		st.Segments[i].Codec = 12345
	case 7:
		kind = "seal-time"
		i := tp.Choose(len(st.Segments))
		if st.Segments[i].SealTime.IsZero() {
			st.Segments[i].SealTime = st.Segments[i].CreateTime
		} else {
			st.Segments[i].SealTime = st.Segments[i].SealTime.AddDate(-3000, 0, 0).Truncate(0)
			var z types.SegmentInfo
			st.Segments[i].SealTime = z.SealTime
		}
	case 8:
		kind = "next-segment-id"
		st.NextSegmentID = 0
	}
	b, _ := json.Marshal(st)
	ex.meta.Raw = b
	return kind
}

// guarded runs one API call with panic, hang and allocation accounting.
func (ex *Exec) guarded(what string, total int, fn func() error) error {
	g := ex.g
	g.reads, g.maxRead = 0, 0
	var m0 runtime.MemStats
	measure := what == "Open" || strings.HasPrefix(what, "Dump")
	if measure {
		runtime.ReadMemStats(&m0)
	}
	err := ex.callR(fn)
	if ex.stop() {
		return err
	}
	budget := 4*(total/8) + 2000
	if g.reads > budget {
		ex.violate("bounded-work", "hang:"+what, "%s performed %d file reads on %d bytes of files: unbounded scanning", what, g.reads, total)
		return err
	}
	limit := total
	if limit < segment.MaxEntrySize {
		limit = segment.MaxEntrySize
	}
	if g.maxRead > limit+65536 {
		ex.violate("bounded-alloc", "alloc:"+what, "%s handed a %d byte buffer to ReadAt; files total %d bytes, MaxEntrySize %d", what, g.maxRead, total, segment.MaxEntrySize)
		return err
	}
	if measure {
		var m1 runtime.MemStats
		runtime.ReadMemStats(&m1)
		if grown := m1.TotalAlloc - m0.TotalAlloc; grown > uint64(4*total+2*segment.MaxEntrySize+(16<<20)) {
			ex.violate("bounded-alloc", "alloc-total:"+what, "%s allocated %d bytes; files total %d bytes", what, grown, total)
		}
	}
	return err
}

// corruptAndProbe is the C11 flow, run after the plan built a valid directory.
func (ex *Exec) corruptAndProbe() {
	ex.closeAndCheck()
	if ex.stop() {
		return
	}
	before := ex.or.Definite()
	d := ex.applyDamage()
	if d == nil {
		return
	}
	total := 0
	for _, n := range ex.disk.List() {
		total += len(ex.disk.Lookup(n).Vol)
	}
	ex.sigParts = append(ex.sigParts, "damage:"+d.kind, fmt.Sprintf("sealed=%v", d.sealed), fmt.Sprintf("pos=%d", ex.tape.Len()%16))
	ex.fired.Add("corrupt_"+d.kind, 1)
	g := ex.g
	h0, mc0 := g.openHandles, g.metaCloses
	var w *wal.WAL
	err := ex.guarded("Open", total, func() error {
		var e error
		w, e = ex.openWAL(g, ex.cfg.CodecID, ex.cfg.SegSize)
		return e
	})
	if ex.stop() {
		return
	}
	if err != nil {
		ex.probes.Add("open_rejected_damage", 1)
		// a failed Open leaves nothing open or locked
		if g.openHandles != h0 {
			ex.violate("failed-open-releases", "failed-open-leaks-handles", "Open failed (%v) and left %d segment file handles open", err, g.openHandles-h0)
			return
		}
		if g.metaCloses == mc0 && g.metaLoads > 0 {
			ex.violate("failed-open-releases", "failed-open-leaks-metastore", "Open failed (%v) without closing the metadata store (a later Open of the directory would block on its lock)", err)
			return
		}
	} else {
		ex.probes.Add("open_accepted_damage", 1)
		if d.mustFail {
			ex.violate("no-silent-shortening", "open-accepted:"+d.kind, "Open succeeded although sealed segment %s is damaged (%s): entries would be silently missing", d.file, d.kind)
			return
		}
		ex.w = w
		var first, last uint64
		ex.guarded("FirstIndex", total, func() error { var e error; first, e = w.FirstIndex(); return e })
		ex.guarded("LastIndex", total, func() error { var e error; last, e = w.LastIndex(); return e })
		if ex.stop() {
			return
		}
		if last >= first && last-first < 400 && first > 0 {
			for i := first; i <= last && !ex.stop(); i++ {
				var l raft.Log
				e := ex.guarded("GetLog", total, func() error { return w.GetLog(i, &l) })
				if e == nil && before != nil && !strings.HasPrefix(d.kind, "meta:") {
					// undamaged reads must still be right or fail: silently different
					// data is only legitimate inside a payload (no per-record checksum)
					_ = l
				}
			}
		}
		if ex.stop() {
			return
		}
		ex.guarded("Close", total, func() error { return w.Close() })
		ex.sim.Quiesce("quiesce-after-probe-close")
	}
	if ex.stop() {
		return
	}
	// the dump utilities read the files without metadata
	f := segment.NewFiler("/sim/dump", &simVFS{g: g, disk: ex.disk})
	codec := &wal.BinaryCodec{}
	payloads := 0
	ex.guarded("DumpLogs", total, func() error {
		return f.DumpLogs(0, 0, func(info types.SegmentInfo, e types.LogEntry) (bool, error) {
			var l raft.Log
			payloads++
			codec.Decode(e.Data, &l) // must not panic on anything found in a damaged file
			if payloads < 40 {
				ex.decodeMutations(e.Data)
			}
			return payloads < 2000, nil
		})
	})
	if ex.stop() {
		return
	}
	names := ex.disk.List()
	sort.Strings(names)
	for _, n := range names {
		var base, id uint64
		if k, _ := fmt.Sscanf(n, "%020d-%016x.wal", &base, &id); k != 2 {
			continue
		}
		ex.guarded("DumpSegment", total, func() error {
			return f.DumpSegment(base, id, 0, 0, func(info types.SegmentInfo, e types.LogEntry) (bool, error) { return true, nil })
		})
		if ex.stop() {
			return
		}
	}
	ex.probes.Add("payloads_decoded", int64(payloads))
}

// decodeMutations: structural damage of a valid encoding must yield an error,
// and no byte string may panic the decoder.
func (ex *Exec) decodeMutations(valid []byte) {
	codec := &wal.BinaryCodec{}
	var l raft.Log
	if codec.Decode(valid, &l) != nil {
		return // not a valid encoding (damaged file)
	}
	tp := ex.tape
	try := func(kind string, b []byte, wantErr bool) {
		var out raft.Log
		var err error
		func() {
			defer func() {
				if r := recover(); r != nil {
					ex.violate("decode-robust", "decode-panic:"+kind, "Decode panicked on %s of a valid encoding: %v", kind, r)
				}
			}()
			err = codec.Decode(b, &out)
		}()
		if ex.stop() {
			return
		}
		if wantErr && err == nil {
			ex.violate("decode-robust", "decode-accepts:"+kind, "Decode returned no error for %s of a valid encoding (%d of %d bytes)", kind, len(b), len(valid))
		}
	}
	if len(valid) > 1 {
		try("strict-prefix", valid[:tp.Choose(len(valid))], true)
	}
	// overlong / overflowing varint in first position
	over := append([]byte{0xff, 0xff, 0xff, 0xff, 0xff, 0xff, 0xff, 0xff, 0xff, 0xff, 0x7f}, valid...)
	try("overflow-varint", over, true)
	// length prefix of Data pointing past the buffer: find it by re-encoding
	// index/term/type as varints
	off := 0
	for i := 0; i < 3; i++ {
		_, n := binary.Uvarint(valid[off:])
		if n <= 0 {
			return
		}
		off += n
	}
	huge := append(append([]byte{}, valid[:off]...), 0xff, 0xff, 0xff, 0xff, 0x0f)
	huge = append(huge, valid[off:]...)
	try("length-past-buffer", huge, true)
	// random bytes must never panic
	rb := make([]byte, tp.Choose(40))
	for i := range rb {
		rb[i] = byte(tp.Choose(256))
	}
	try("random", rb, false)
	ex.probes.Add("decode_mutations", 4)
}
