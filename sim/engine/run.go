package engine

import (
	"verif/sim/tape"
)

// RunResult is the outcome of one simulated run.
type RunResult struct {
	Seed       uint64
	Viol       *Violation
	HarnessErr string
	Stats      *RunStats
	Config     Config
	Plan       Plan
	Tape       []uint32
	Log        []string
}

func (r *RunResult) Replay(prop string) *Replay {
	return &Replay{Property: prop, Seed: r.Seed, Config: r.Config, Plan: r.Plan, Tape: r.Tape, Violation: r.Viol, Log: r.Log}
}

// setup applies profile-specific executor switches.
func setup(ex *Exec) {
	switch ex.cfg.Profile {
	case "C03", "C18":
		ex.liveness = true
	case "C14":
		ex.liveness = true
		ex.cl = &closeState{}
	case "C06":
		ex.liveness = true
		ex.conc = &concState{}
	}
	if (ex.cfg.Profile == "C12" || ex.cfg.Profile == "C13" || ex.cfg.Profile == "C08" || ex.cfg.Profile == "C10") && ex.cfg.Readers > 0 {
		ex.conc = &concState{}
	}
}

func runWith(prop string, seed uint64, cfg Config, plan Plan, tp *tape.Tape) *RunResult {
	if run, ok := customRunners[cfg.Profile]; ok {
		return run(prop, seed, cfg, plan, tp)
	}
	ex := NewExec(prop, cfg, plan, tp)
	setup(ex)
	v, herr := ex.Run()
	return &RunResult{Seed: seed, Viol: v, HarnessErr: herr, Stats: ex.Stats(), Config: cfg, Plan: plan, Tape: tp.Rec, Log: ex.Log()}
}

// customRunners lets profiles that do not use the plan executor (verifier
// cluster, migration, ...) plug in.
var customRunners = map[string]func(prop string, seed uint64, cfg Config, plan Plan, tp *tape.Tape) *RunResult{}

// RunSeed generates and executes run `seed` of a property's profile.
func RunSeed(prop string, seed uint64, tier string) *RunResult {
	cfg, plan := Generate(prop, seed, tier)
	return runWith(prop, seed, cfg, plan, tape.New(tape.Mix(seed, 0x74617065)))
}

// RunReplay re-executes a replay file exactly.
func RunReplay(r *Replay) *RunResult {
	if r.FromSeed {
		return runWith(r.Property, r.Seed, r.Config, r.Plan, tape.New(tape.Mix(r.Seed, 0x74617065)))
	}
	return runWith(r.Property, r.Seed, r.Config, r.Plan, tape.NewReplay(r.Tape))
}
