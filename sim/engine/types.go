// Package engine executes simulation runs: it interprets a plan of API calls
// against the real raft-wal code mounted on the simulated disk and metadata
// store, injects the faults the plan names at the seam calls, and evaluates the
// oracles of the selected profile.
package engine

import (
	"encoding/json"
	"fmt"
	"os"
	"verif/sim/sched"
)

// Config is the per-run ("swarm") configuration. It is derived from the seed
// and stored in replay files.
type Config struct {
	Profile    string `json:"profile"`
	SegSize    int    `json:"seg_size"`
	Prealloc   bool   `json:"prealloc"`
	Granule    int    `json:"granule"`
	Meta       string `json:"meta"` // "sim" | "bolt"
	Disk       string `json:"disk"` // "sim" | "real"
	FirstIndex uint64 `json:"first_index"`
	StickNum   int    `json:"stick_num"`
	StickDen   int    `json:"stick_den"`
	Readers    int    `json:"readers,omitempty"`
	PostYield  bool   `json:"post_yield,omitempty"`  // a yield point also AFTER each ReadAt returns: other tasks may run between a read's completion and the caller's use of the bytes
	DefaultLog bool   `json:"default_log,omitempty"` // Open without WithLogger: the WAL falls back to hclog.Default() (set to a null logger by the harness)
	StableTask bool   `json:"stable_task,omitempty"` // concurrent flow: a task issuing Set/Get beside the writer and the readers
	Strict     bool   `json:"strict"`                // observe and compare after every mutating op
	Usability  bool   `json:"usability"`             // run the usability script after every recovery (C03)
	CodecID    uint64 `json:"codec_id,omitempty"`
	OWSyncsDir bool   `json:"ow_syncs_dir"` // OpenWriter handles also fsync the directory on first Sync (probed from fs/)
}

// FaultSpec attaches a fault to the window of one plan op: from the start of
// the op until the start of the next one, including background work.
type FaultSpec struct {
	Class      string     `json:"class"`            // "crash" (process) | "power" | "err"
	Target     string     `json:"target,omitempty"` // seam kind filter, "" = any
	K          int        `json:"k"`                // ordinal among matching seam calls in the window
	When       string     `json:"when"`             // "before" | "after" | "mid"
	Persistent bool       `json:"persistent,omitempty"`
	Nested     *FaultSpec `json:"nested,omitempty"` // applies to the recovery Open that follows this crash
}

// OpSpec is one plan step. Arguments are relative to the model state at
// execution time so that plans stay meaningful when the shrinker drops steps.
type OpSpec struct {
	Kind  string     `json:"kind"`
	N     int        `json:"n,omitempty"`
	Sizes []int      `json:"sizes,omitempty"`
	Ext   []int      `json:"ext,omitempty"`
	Var   int        `json:"var,omitempty"`
	K     int        `json:"k,omitempty"`
	Key   string     `json:"key,omitempty"`
	Fault *FaultSpec `json:"fault,omitempty"`
}

func (o OpSpec) String() string {
	b, _ := json.Marshal(o)
	return string(b)
}

// Plan is the operation list of a run.
type Plan struct {
	Ops []OpSpec `json:"ops"`
}

// Violation is a failed oracle.
type Violation struct {
	Property string `json:"property"`
	Oracle   string `json:"oracle"`
	Class    string `json:"class"` // cause class, used to match known findings and to guide shrinking
	Message  string `json:"message"`
	AtOp     int    `json:"at_op"`
	Gen      int    `json:"gen"`
}

func (v *Violation) Error() string {
	return fmt.Sprintf("%s/%s [%s] at op %d gen %d: %s", v.Property, v.Oracle, v.Class, v.AtOp, v.Gen, v.Message)
}

// Replay is the replay file: a pure function of it and the code reproduces
// the run.
type Replay struct {
	Property  string     `json:"property"`
	Seed      uint64     `json:"seed"`
	Config    Config     `json:"config"`
	Plan      Plan       `json:"plan"`
	Tape      []uint32   `json:"tape"`
	Violation *Violation `json:"violation,omitempty"`
	Log       []string   `json:"log,omitempty"`
	Shrunk    bool       `json:"shrunk"`
	Golden    string     `json:"golden,omitempty"`    // C09: path of a golden directory that no longer reads back identically
	FromSeed  bool       `json:"from_seed,omitempty"` // re-execute the seed (no recorded tape: the run never ended)
	Note      string     `json:"note,omitempty"`
	Child     bool       `json:"child,omitempty"` // the violation kills the process (panic in a goroutine the library started): replay re-executes the seed in a child process
	Race      bool       `json:"race,omitempty"`  // the violation is a race-detector report: replay re-executes the seed under the race build (bin/walsim-race)
}

func (r *Replay) Write(path string) error {
	b, err := json.MarshalIndent(r, "", " ")
	if err != nil {
		return err
	}
	return os.WriteFile(path, b, 0o644)
}

func LoadReplay(path string) (*Replay, error) {
	b, err := os.ReadFile(path)
	if err != nil {
		return nil, err
	}
	var r Replay
	if err := json.Unmarshal(b, &r); err != nil {
		return nil, err
	}
	return &r, nil
}

// Counters is a string-keyed counter bag used for fault-fired counts, probes
// and reach measures; merged across runs and workers.
type Counters map[string]int64

// CountersOff disables counting (edge-free race builds: Go maps carry race
// hooks inside the runtime, and the counter bags are shared by all tasks).
var CountersOff = sched.EdgeFree

func (c Counters) Add(k string, n int64) {
	if CountersOff {
		return
	}
	c[k] += n
}
func (c Counters) Merge(o Counters) {
	for k, v := range o {
		c[k] += v
	}
}

// RunStats is what one run reports.
type RunStats struct {
	Steps      int
	SeamCalls  int
	Ops        int
	Gens       int
	Contended  int
	Sig        uint64 // interleaving signature
	CaseSig    string // run signature for distinct_nontrivial
	Nontrivial bool
	Fired      Counters // fault kinds actually fired
	Probes     Counters
	Points     Counters
	StateSigs  []uint64 // abstract model states visited
}
