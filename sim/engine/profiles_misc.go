package engine

func init() {
	generators["C09"] = func(p *pg) (Config, Plan) { return p.genC09() }
	generators["C20"] = func(p *pg) (Config, Plan) { return p.genC20() }
	generators["C15"] = func(p *pg) (Config, Plan) { return p.genC15() }
	generators["C08"] = func(p *pg) (Config, Plan) { return p.genC08() }
}

// genC09: the format invariant is evaluated at every quiescent point of
// fault-free programs (rotation, truncation, reopen histories) and of crash /
// re-append histories.
func (p *pg) genC09() (Config, Plan) {
	switch p.r.Intn(6) {
	case 0, 1:
		c, plan := p.genCrash("C09")
		return c, plan
	case 2:
		// injected I/O errors: what a failed (rolled back) append, seal or
		// truncation leaves in the file must never end up inside the committed part
		c, plan := p.genErr("C09")
		for i := 0; i < len(plan.Ops); i += 4 {
			if plan.Ops[i].Kind == "get" && plan.Ops[i].Fault == nil {
				plan.Ops[i] = OpSpec{Kind: "reopen"}
			}
		}
		plan.Ops = append(plan.Ops, OpSpec{Kind: "reopen"}, OpSpec{Kind: "quiesce"})
		return c, plan
	}
	c := p.baseConfig("C09")
	c.Strict = false
	kinds := []string{"append", "append", "append", "deltail", "delhead", "delall", "reopen", "quiesce", "quiesce", "yield"}
	mix := p.swarmMix(kinds, "append", "quiesce")
	n := p.ops(6 + p.r.Intn(40))
	var plan Plan
	for i := 0; i < n; i++ {
		plan.Ops = append(plan.Ops, p.draw(mix))
	}
	return c, plan
}

// genC20: fault-free programs with the conservation oracle; weighted towards
// truncations that empty the log, hit an empty tail, or repeat.
func (p *pg) genC20() (Config, Plan) {
	if p.r.Intn(4) == 0 {
		// injected I/O errors: a failed call must not be counted as done
		c, plan := p.genErr("C20")
		for i := 0; i < len(plan.Ops); i += 3 {
			if plan.Ops[i].Kind == "get" && plan.Ops[i].Fault == nil {
				plan.Ops[i] = OpSpec{Kind: "quiesce"}
			}
		}
		plan.Ops = append(plan.Ops, OpSpec{Kind: "quiesce"})
		return c, plan
	}
	c := p.baseConfig("C20")
	c.Strict = p.r.Intn(2) == 0
	c.SegSize = []int{64, 64, 128, 200, 256, 512, 4096}[p.r.Intn(7)]
	kinds := []string{"append", "append", "badappend", "deltail", "delhead", "delhead", "delall", "delmid", "delnoop", "reopen", "quiesce", "yield", "get", "set", "getstable"}
	mix := p.swarmMix(kinds, "append", "delhead", "quiesce")
	n := p.ops(6 + p.r.Intn(40))
	var plan Plan
	for i := 0; i < n; i++ {
		op := p.draw(mix)
		plan.Ops = append(plan.Ops, op)
		if op.Kind == "delhead" && p.r.Intn(3) == 0 {
			// repeated truncation right after (possibly onto the now empty tail)
			plan.Ops = append(plan.Ops, OpSpec{Kind: "quiesce"}, p.deleteOp([]string{"delhead", "delall", "deltail"}[p.r.Intn(3)]))
		}
	}
	return c, plan
}

var boundarySizes = []int{0, 1, 7, 8, 9, 15, 16, 17, 65536 - 40, 65536 - 16, 65536 - 9, 65536 - 8, 65536 - 1, 65536, 65536 + 1, 65536 + 8, 65536 + 16, 100000, 1 << 20}

// genC15: entry sizes at the boundaries the property names, crossed with
// segment sizes, batch positions and preallocation; acknowledged entries must
// read back now, after a clean reopen and after a power loss.
func (p *pg) genC15() (Config, Plan) {
	c := p.baseConfig("C15")
	c.Strict = true
	c.SegSize = []int{64, 256, 4096, 65536, 65536 + 4096, 1 << 20, 4 << 20}[p.r.Intn(7)]
	// the documented 64 MiB maximum: a few exact boundary cases in every batch of
	// runs (encoded size = maximum + delta, computed through the codec at run time)
	huge := p.r.Intn(25) == 0
	var plan Plan
	if p.r.Intn(60) == 0 {
		// one batch of two or three entries, each legal (about half the maximum),
		// together larger than a whole segment plus one maximum-size entry; then the
		// process stops (clean Close, process crash or power loss) before or while
		// the background rotation commits, and the directory is reopened: the tail
		// that recovery has to scan holds a batch larger than any single entry
		c.SegSize = []int{64, 4096, 1 << 20, 4 << 20}[p.r.Intn(4)]
		c.Granule = 4096
		plan.Ops = append(plan.Ops, p.appendOp())
		nb := 2 + p.r.Intn(2)
		op := OpSpec{Kind: "append", N: nb}
		for j := 0; j < nb; j++ {
			op.Sizes = append(op.Sizes, (33<<20)+p.r.Intn(1<<20))
			op.Ext = append(op.Ext, 0)
		}
		plan.Ops = append(plan.Ops, op)
		switch p.r.Intn(3) {
		case 0:
			plan.Ops = append(plan.Ops, OpSpec{Kind: "reopen"})
		case 1:
			plan.Ops = append(plan.Ops, OpSpec{Kind: "quiesce", Fault: &FaultSpec{Class: "crash", K: 0, When: "before"}})
		default:
			plan.Ops = append(plan.Ops, OpSpec{Kind: "quiesce", Fault: &FaultSpec{Class: "power", K: 0, When: []string{"before", "after"}[p.r.Intn(2)]}})
		}
		plan.Ops = append(plan.Ops, p.appendOp(), OpSpec{Kind: "reopen"})
		return c, plan
	}
	n := 2 + p.r.Intn(6)
	for i := 0; i < n; i++ {
		bn := 1 + p.r.Intn(3)
		op := OpSpec{Kind: "append", N: bn, Var: p.r.Intn(4), K: p.r.Intn(50)}
		pos := p.r.Intn(bn)
		for j := 0; j < bn; j++ {
			sz := dataSizes[p.r.Intn(len(dataSizes))]
			if j == pos {
				switch p.r.Intn(5) {
				case 0:
					// segment size +/- frame overhead
					sz = c.SegSize - 96 + p.r.Intn(128)
					if sz < 0 {
						sz = 0
					}
				case 1:
					sz = p.r.Intn(24)
				default:
					sz = boundarySizes[p.r.Intn(len(boundarySizes))]
				}
				if huge && i == n/2 {
					op.Key = "enc64m"
					op.K = []int{-9, -8, -7, -4, -1, 0, 1, 8}[p.r.Intn(8)]
					op.Var = 0 // legal start index
					huge = false
				}
			}
			op.Sizes = append(op.Sizes, sz)
			op.Ext = append(op.Ext, 0)
		}
		plan.Ops = append(plan.Ops, op)
		switch p.r.Intn(6) {
		case 0:
			plan.Ops = append(plan.Ops, OpSpec{Kind: "reopen"})
		case 1:
			plan.Ops = append(plan.Ops, OpSpec{Kind: "quiesce", Fault: &FaultSpec{Class: "power", K: 0, When: "before"}})
			plan.Ops = append(plan.Ops, OpSpec{Kind: "yield", Fault: &FaultSpec{Class: "power", K: 0, When: "before"}})
		case 2:
			plan.Ops = append(plan.Ops, OpSpec{Kind: "get", K: p.r.Intn(3), Var: p.r.Intn(10)})
		}
	}
	return c, plan
}

// genC08: stable-store operations mixed with log operations, clean reopens and
// crashes after (and inside) acknowledged Sets.
func (p *pg) genC08() (Config, Plan) {
	if p.r.Intn(4) == 0 {
		// concurrent half: the C06 workload (writer + readers + rotation) with a
		// stable-store client beside it, on the real BoltMetaDB
		c, plan := p.genC06("C08")
		c.Meta = "bolt"
		c.StableTask = true
		return c, plan
	}
	c := p.baseConfig("C08")
	c.Strict = p.r.Intn(3) == 0
	c.Meta = "bolt"
	kinds := []string{"set", "set", "set", "getstable", "getstable", "append", "append", "delhead", "deltail", "reopen", "yield", "quiesce"}
	mix := p.swarmMix(kinds, "set", "getstable", "append")
	n := p.ops(6 + p.r.Intn(30))
	var plan Plan
	for i := 0; i < n; i++ {
		op := p.draw(mix)
		if op.Kind == "set" && p.r.Intn(12) == 0 {
			op.Key = string(make([]byte, []int{1, 100, 32768}[p.r.Intn(3)]))
			if p.r.Intn(2) == 0 {
				op.N = 4096 + p.r.Intn(60000)
			}
		} else if op.Kind == "set" && p.r.Intn(3) == 0 {
			// values large enough to push the bucket out of bolt's inline form
			op.N = 1000 + p.r.Intn(3000)
		}
		plan.Ops = append(plan.Ops, op)
	}
	if p.r.Intn(3) == 0 {
		// value history patterns on one key with a recurring value v: v, delete, v /
		// v, v / v, other, v - each followed by a Get (and sometimes a reopen)
		v := OpSpec{Kind: "set", N: []int{8, 30}[p.r.Intn(2)], Var: p.r.Intn(5), K: 2}
		mid := []OpSpec{{Kind: "set", N: -1, Var: v.Var}, v, {Kind: "set", N: 1 + p.r.Intn(40), Var: v.Var}}[p.r.Intn(3)]
		pat := []OpSpec{v, mid, v, {Kind: "getstable", Var: v.Var}}
		if p.r.Intn(3) == 0 {
			pat = append(pat, OpSpec{Kind: "reopen"}, OpSpec{Kind: "getstable", Var: v.Var})
		}
		i := p.r.Intn(len(plan.Ops) + 1)
		plan.Ops = append(plan.Ops[:i], append(pat, plan.Ops[i:]...)...)
	}
	nc := p.r.Pick([]int{30, 40, 20, 10})
	for k := 0; k < nc; k++ {
		for tries := 0; tries < 20; tries++ {
			i := p.r.Intn(len(plan.Ops))
			op := &plan.Ops[i]
			if op.Fault != nil {
				continue
			}
			switch op.Kind {
			case "set", "append", "delhead", "deltail", "yield", "quiesce":
			default:
				continue
			}
			op.Fault = p.crashFault(0, 3) // process crashes only: bbolt's own power-loss safety is trusted, not simulated
			op.Fault.Class = "crash"
			break
		}
	}
	// meta store errors on stable calls: a Set that fails must say so, a Get that
	// fails must not read as "never set"
	ne := p.r.Pick([]int{50, 35, 15})
	for k := 0; k < ne; k++ {
		for tries := 0; tries < 20; tries++ {
			i := p.r.Intn(len(plan.Ops))
			op := &plan.Ops[i]
			if op.Fault != nil {
				continue
			}
			switch op.Kind {
			case "set":
				op.Fault = &FaultSpec{Class: "err", Target: "SetStable", K: 0, When: []string{"before", "after"}[p.r.Intn(2)]}
			case "getstable":
				op.Fault = &FaultSpec{Class: "err", Target: "GetStable", K: 0, When: "before"}
			default:
				continue
			}
			break
		}
	}
	return c, plan
}
