package engine

func init() {
	// C01 / C03 state what holds after ANY later Open; one run in 8 reaches the
	// reopen through a failed call (error chains of the C10 generator) instead of
	// a crash: an acknowledged entry must still be there, Open must still succeed
	// and the WAL must still be usable
	generators["C01"] = func(p *pg) (Config, Plan) {
		if p.r.Intn(8) == 0 {
			c := p.baseConfig("C01")
			return c, p.errChains(&c)
		}
		return p.genCrash("C01")
	}
	// C02 speaks of what a reopen returns; one run in 8 reaches the reopen through a failed call whose rollback
	// may leave stale but CRC-valid frames in the file (seeded C02i) instead of through a torn write
	generators["C02"] = func(p *pg) (Config, Plan) {
		if p.r.Intn(8) == 0 {
			c := p.baseConfig("C02")
			return c, p.errChains(&c)
		}
		return p.genCrash("C02")
	}
	generators["C03"] = func(p *pg) (Config, Plan) {
		if p.r.Intn(8) == 0 {
			c := p.baseConfig("C03")
			c.Usability = true
			plan := p.errChains(&c)
			return c, plan
		}
		return p.genCrash("C03")
	}
	generators["C04"] = func(p *pg) (Config, Plan) { return p.genCrash("C04") }
	generators["C13"] = func(p *pg) (Config, Plan) {
		switch p.r.Intn(4) {
		case 0:
			// readers pinning old state across truncations (no crashes)
			return p.genC06("C13")
		case 1:
			// I/O errors instead of crashes: a failed creation / deletion / metadata
			// commit (also one whose effect landed) must not lead to an ID or file
			// name being handed out twice, nor to files surviving the next Open
			return p.genErr("C13")
		}
		return p.genCrash("C13")
	}
}

var crashTargets = []string{"", "", "", "WriteAt", "Sync", "CommitState", "Create", "Delete", "SetStable"}

func (p *pg) crashFault(powerBias int, depth int) *FaultSpec {
	f := &FaultSpec{Class: "crash"}
	if p.r.Intn(10) < powerBias {
		f.Class = "power"
	}
	f.Target = crashTargets[p.r.Intn(len(crashTargets))]
	if f.Target == "" {
		f.K = p.r.Pick([]int{30, 25, 15, 10, 8, 5, 3, 2, 1, 1})
	} else {
		f.K = p.r.Pick([]int{70, 20, 7, 3})
	}
	f.When = []string{"before", "before", "after", "after", "mid"}[p.r.Intn(5)]
	if depth < 3 && p.r.Intn(5) == 0 {
		f.Nested = p.crashFault(powerBias, depth+1)
	}
	return f
}

// genCrash builds workloads of appends / rotations / truncations / reopens with
// one to four crashes addressed to seam calls inside operations (and inside the
// background rotation and the recovery that follow them).
func (p *pg) genCrash(profile string) (Config, Plan) {
	c := p.baseConfig(profile)
	c.Strict = p.r.Intn(4) == 0
	powerBias := 5
	var kinds []string
	switch profile {
	case "C02":
		// torn writes on the same tail file, repeatedly: big segments, 8-byte
		// granules, few distinct frame sizes
		powerBias = 9
		c.Granule = []int{8, 8, 8, 64}[p.r.Intn(4)]
		c.SegSize = []int{512, 1024, 4096, 65536}[p.r.Intn(4)]
		kinds = []string{"append", "append", "append", "deltail", "delhead", "yield", "get"}
	case "C03":
		c.Usability = true
		// weight towards geometries where appends fill segments
		c.SegSize = []int{64, 64, 128, 200, 256, 512}[p.r.Intn(6)]
		kinds = []string{"append", "append", "deltail", "delhead", "delall", "reopen", "yield", "quiesce", "set"}
	case "C04":
		c.SegSize = []int{64, 128, 200, 256, 512, 1024}[p.r.Intn(6)]
		kinds = []string{"append", "append", "deltail", "deltail", "delhead", "delhead", "delall", "yield", "quiesce", "reopen"}
	default:
		kinds = []string{"append", "append", "append", "deltail", "delhead", "delall", "reopen", "yield", "quiesce", "set", "get"}
	}
	if profile == "C02" && p.r.Intn(3) == 0 {
		return c, p.tornCycles(&c)
	}
	if profile == "C01" && p.r.Intn(6) == 0 {
		// the same torn crash / recover / append cycles judged by C01's statement:
		// what is acknowledged right after a recovery that rewound a torn batch must
		// survive the next crash and recovery
		return c, p.tornCycles(&c)
	}
	if (profile == "C01" || profile == "C02" || profile == "C04") && p.r.Intn(16) == 0 {
		return c, p.bigBatches(&c)
	}
	if profile == "C04" && p.r.Intn(4) == 0 {
		return c, p.truncationChains(&c)
	}
	if profile != "C02" && profile != "C09" && p.r.Intn(25) == 0 {
		// the real metadb.BoltMetaDB + bbolt (on tmpfs) behind the seam wrapper:
		// every MetaStore call is still a yield / crash point
		c.Meta = "bolt"
	}
	mix := p.swarmMix(kinds, "append")
	n := p.ops(6 + p.r.Intn(30))
	var plan Plan
	small := profile == "C02" && p.r.Intn(2) == 0
	for i := 0; i < n; i++ {
		op := p.draw(mix)
		if small && op.Kind == "append" {
			for j := range op.Sizes {
				op.Sizes[j] = []int{8, 8, 16, 40}[p.r.Intn(4)]
				op.Ext[j] = 0
			}
		}
		plan.Ops = append(plan.Ops, op)
		// give background rotation a window of its own now and then
		if op.Kind == "append" && p.r.Intn(3) == 0 {
			plan.Ops = append(plan.Ops, OpSpec{Kind: []string{"yield", "quiesce"}[p.r.Intn(2)]})
		}
	}
	// place crashes inside ops that create in-flight state
	nc := 1 + p.r.Pick([]int{50, 30, 15, 5})
	for k := 0; k < nc; k++ {
		// candidates: mutating ops and the yield/quiesce windows after them
		tries := 0
		for tries < 20 {
			tries++
			i := p.r.Intn(len(plan.Ops))
			op := &plan.Ops[i]
			if op.Fault != nil {
				continue
			}
			switch op.Kind {
			case "append", "delhead", "deltail", "delall", "reopen", "yield", "quiesce", "set":
			default:
				continue
			}
			op.Fault = p.crashFault(powerBias, 1)
			if profile == "C04" && (op.Kind == "deltail" || op.Kind == "delhead" || op.Kind == "delall") {
				op.Fault.Target = []string{"", "CommitState", "Create", "Delete", "Sync", "WriteAt"}[p.r.Intn(6)]
				op.Fault.K = p.r.Pick([]int{70, 20, 10})
			}
			break
		}
	}
	return c, plan
}

// tornCycles: repeated crash -> recover -> append cycles on the same tail file
// where every append of the cycle is torn by a power loss right after its
// write. Payload sizes come from {8, 40} and batches have 1-2 entries, so that
// frame sizes repeat and a new batch (or its commit frame) frequently ends
// exactly where a frame or commit frame of an earlier torn batch begins.
func (p *pg) tornCycles(c *Config) Plan {
	c.Granule = 8
	c.SegSize = []int{4096, 65536}[p.r.Intn(2)]
	c.FirstIndex = []uint64{1, 1, 2, 100}[p.r.Intn(4)]
	c.Strict = false
	var plan Plan
	small := func(n int) OpSpec {
		op := OpSpec{Kind: "append", N: n}
		for i := 0; i < n; i++ {
			op.Sizes = append(op.Sizes, []int{8, 8, 40, 16}[p.r.Intn(4)])
			op.Ext = append(op.Ext, 0)
		}
		return op
	}
	for i := p.r.Intn(3); i > 0; i-- {
		plan.Ops = append(plan.Ops, small(1+p.r.Intn(2)))
	}
	cycles := 2 + p.r.Intn(4)
	for i := 0; i < cycles; i++ {
		op := small(1 + p.r.Intn(2))
		if p.r.Intn(5) != 0 {
			op.Fault = &FaultSpec{Class: "power", Target: "WriteAt", K: 0, When: "after"}
		}
		plan.Ops = append(plan.Ops, op)
	}
	plan.Ops = append(plan.Ops, small(1))
	return plan
}

// bigBatches: a few batches of hundreds of KiB to several MiB (many write-buffer
// and read-buffer sizes over, several per segment or larger than one), each hit
// by a power loss inside its write or fsync, so that what decides is which
// sectors of ONE large batch landed: a batch must stay all-or-nothing and
// CRC-protected whatever its size ("every batch-size combination"). Granules are
// sector-sized to keep the torn images tractable.
func (p *pg) bigBatches(c *Config) Plan {
	c.SegSize = []int{1 << 20, 4 << 20, 8 << 20}[p.r.Intn(3)]
	c.Granule = []int{512, 4096, 4096, 64}[p.r.Intn(4)]
	c.FirstIndex = []uint64{1, 1, 2, 1000}[p.r.Intn(4)]
	c.Strict = false
	c.Meta = "sim"
	var plan Plan
	small := func() OpSpec {
		n := 1 + p.r.Intn(2)
		op := OpSpec{Kind: "append", N: n}
		for i := 0; i < n; i++ {
			op.Sizes = append(op.Sizes, []int{8, 40, 1000}[p.r.Intn(3)])
			op.Ext = append(op.Ext, 0)
		}
		return op
	}
	big := func() OpSpec {
		n := 2 + p.r.Intn(4)
		op := OpSpec{Kind: "append", N: n}
		total := 0
		for i := 0; i < n; i++ {
			sz := []int{70000, 200000, 400000, 400000, 700000, 1100000, 2200000}[p.r.Intn(7)]
			if total+sz > 5<<20 {
				sz = 1000
			}
			total += sz
			op.Sizes = append(op.Sizes, sz+p.r.Intn(9))
			op.Ext = append(op.Ext, 0)
		}
		return op
	}
	for i := p.r.Intn(3); i > 0; i-- {
		plan.Ops = append(plan.Ops, small())
	}
	nb := 1 + p.r.Intn(3)
	for i := 0; i < nb; i++ {
		op := big()
		if i == 0 || p.r.Intn(2) == 0 {
			op.Fault = &FaultSpec{Class: "power", Target: []string{"WriteAt", "WriteAt", "Sync", ""}[p.r.Intn(4)], K: p.r.Pick([]int{60, 25, 10, 5}), When: []string{"before", "after", "after", "mid", "mid"}[p.r.Intn(5)]}
			if p.r.Intn(6) == 0 {
				op.Fault.Class = "crash"
			}
		}
		plan.Ops = append(plan.Ops, op)
		if p.r.Intn(3) == 0 {
			plan.Ops = append(plan.Ops, small())
		}
		if p.r.Intn(5) == 0 {
			plan.Ops = append(plan.Ops, p.deleteOp("deltail"))
		}
	}
	plan.Ops = append(plan.Ops, small())
	return plan
}

// truncationChains (C04): two-crash chains around a truncation, the histories in
// which a truncation's durability depends on what an EARLIER recovery or a torn
// seal left behind. Random single crashes reach them about once in 20 000 runs;
// the skeleton is fixed here, sizes / positions / fault placement are drawn.
//
//	recover-then-truncate: appends; an append killed (process crash, page cache
//	  survives) between its write and its fsync; recovery shows the batch; a head
//	  truncation reaching into the recovered batch (commits only metadata); power
//	  loss before anything else is written; reopen.
//	torn-seal: appends; a tail truncation (ForceSeal: index + commit frame, then
//	  the metadata commit) hit by a power loss inside its writes; appends that
//	  re-use the truncated indexes; a second crash; reopen.
func (p *pg) truncationChains(c *Config) Plan {
	c.SegSize = []int{512, 1024, 4096, 4096}[p.r.Intn(4)]
	c.Granule = []int{8, 8, 64, 512}[p.r.Intn(4)]
	c.Strict = false
	c.Meta = "sim"
	var plan Plan
	small := func(n int) OpSpec {
		op := OpSpec{Kind: "append", N: n}
		for i := 0; i < n; i++ {
			op.Sizes = append(op.Sizes, []int{8, 16, 40, 100}[p.r.Intn(4)])
			op.Ext = append(op.Ext, 0)
		}
		return op
	}
	pre := 0
	for i := 1 + p.r.Intn(3); i > 0; i-- {
		n := 1 + p.r.Intn(4)
		pre += n
		plan.Ops = append(plan.Ops, small(n))
	}
	if p.r.Intn(2) == 0 {
		// recover-then-truncate
		n := 2 + p.r.Intn(5)
		killed := small(n)
		killed.Fault = &FaultSpec{Class: "crash", Target: "Sync", K: 0, When: "before"}
		if p.r.Intn(4) == 0 {
			killed.Fault.When = "mid"
		}
		plan.Ops = append(plan.Ops, killed)
		del := OpSpec{Kind: "delhead", K: pre + 1 + p.r.Intn(n-1), Var: p.r.Intn(3)}
		if p.r.Intn(4) == 0 {
			del.K = 1 + p.r.Intn(pre+n)
		}
		plan.Ops = append(plan.Ops, del)
		next := small(1 + p.r.Intn(2))
		next.Fault = &FaultSpec{Class: "power", Target: []string{"WriteAt", "", "Sync"}[p.r.Intn(3)], K: 0, When: "before"}
		plan.Ops = append(plan.Ops, next, small(1))
		return plan
	}
	// torn-seal
	del := OpSpec{Kind: "deltail", K: 1 + p.r.Intn(3), Var: p.r.Intn(3)}
	del.Fault = &FaultSpec{Class: "power", Target: []string{"WriteAt", "Sync", "", "CommitState"}[p.r.Intn(4)], K: p.r.Pick([]int{60, 30, 10}), When: []string{"before", "after", "mid", "mid"}[p.r.Intn(4)]}
	plan.Ops = append(plan.Ops, del)
	for i := 1 + p.r.Intn(2); i > 0; i-- {
		plan.Ops = append(plan.Ops, small(1+p.r.Intn(3)))
	}
	if p.r.Intn(2) == 0 {
		again := small(1 + p.r.Intn(2))
		again.Fault = p.crashFault(7, 3)
		plan.Ops = append(plan.Ops, again)
	}
	if p.r.Intn(2) == 0 {
		plan.Ops = append(plan.Ops, p.deleteOp([]string{"deltail", "delhead"}[p.r.Intn(2)]))
	}
	plan.Ops = append(plan.Ops, small(1), OpSpec{Kind: "reopen"})
	return plan
}
