package engine

import (
	"encoding/json"
	"flag"
	"fmt"
	"os"
	"os/exec"
	"path/filepath"
	"sort"
	"strconv"
	"strings"
	"time"
)

// The race stage: the same seeded runs executed by the race build of walsim,
// in which the scheduler hands over between tasks without creating
// happens-before edges (sched/handoff_spin.go) and the harness packages are
// compiled without instrumentation. The only edges the detector sees are the
// ones raft-wal creates itself, the ones the real storage would create (one
// sync variable for pread/pwrite as in package syscall, one for the metadata
// store as bbolt's locks), goroutine creation, and joins with finished tasks.
// A report whose two stacks both contain raft-wal frames is a violation; any
// other report is harness trouble (exit 2).

const raceExit = 66

func raceEnv(logPath string) []string {
	env := os.Environ()
	out := env[:0:0]
	for _, e := range env {
		if strings.HasPrefix(e, "GORACE=") || strings.HasPrefix(e, "GOMAXPROCS=") {
			continue
		}
		out = append(out, e)
	}
	return append(out, "GORACE=halt_on_error=1 exitcode="+strconv.Itoa(raceExit)+" log_path="+logPath, "GOMAXPROCS=1")
}

// RaceWorkerMain (race build only) runs seeds until the budget is used; the
// race runtime ends the process with exit code 66 at the first report.
func RaceWorkerMain(args []string) {
	fs := flag.NewFlagSet("raceworker", flag.ExitOnError)
	prop := fs.String("prop", "", "property")
	tier := fs.String("tier", "quick", "tier")
	base := fs.Uint64("seed", 1, "VERIF_SEED")
	wi := fs.Int("worker", 0, "worker index")
	wn := fs.Int("workers", 1, "number of workers")
	budget := fs.Float64("budget", 10, "seconds")
	cur := fs.String("cur", "", "file receiving the seed being run")
	out := fs.String("out", "", "output file")
	fs.Parse(args)
	start := time.Now()
	res := map[string]interface{}{}
	runs, viol, herr := 0, 0, []string{}
	var first uint64
	for k := uint64(0); time.Since(start).Seconds() < *budget; k++ {
		seed := SeedOf(*base, uint64(*wi)+k*uint64(*wn))
		if runs == 0 {
			first = seed
		}
		os.WriteFile(*cur, []byte(strconv.FormatUint(seed, 10)), 0o644)
		r := RunSeed(*prop, seed, *tier)
		runs++
		if r.HarnessErr != "" {
			herr = append(herr, fmt.Sprintf("seed %d (race build): %s", seed, r.HarnessErr))
			if len(herr) >= 3 {
				break
			}
		}
		if r.Viol != nil {
			viol++
		}
	}
	res["runs"] = runs
	res["first_seed"] = first
	res["oracle_violations_seen"] = viol
	res["harness_errs"] = herr
	b, _ := json.Marshal(res)
	os.WriteFile(*out, b, 0o644)
}

type raceProc struct {
	cmd           *exec.Cmd
	cur, out, log string
	errf          *os.File
}

func startRaceWorkers(spec *PropSpec, racebin, prop, tier string, seed uint64, budget float64, tmp string) []raceProc {
	if spec.RaceWorkers == 0 {
		return nil
	}
	if racebin == "" {
		fmt.Fprintf(os.Stderr, "CHECK-TROUBLE: %s has a race stage but no -racebin was given\n", prop)
		os.Exit(2)
	}
	if _, err := os.Stat(racebin); err != nil {
		fmt.Fprintf(os.Stderr, "CHECK-TROUBLE: race build %s missing: %v\n", racebin, err)
		os.Exit(2)
	}
	var ps []raceProc
	for i := 0; i < spec.RaceWorkers; i++ {
		p := raceProc{
			cur: filepath.Join(tmp, fmt.Sprintf("race%d.cur", i)),
			out: filepath.Join(tmp, fmt.Sprintf("race%d.json", i)),
			log: filepath.Join(tmp, fmt.Sprintf("race%d.log", i)),
		}
		// a different stream of seeds than the normal workers: base is salted
		p.cmd = exec.Command(racebin, "raceworker", "-prop", prop, "-tier", tier, "-seed", strconv.FormatUint(seed^0x72616365, 10),
			"-worker", strconv.Itoa(i), "-workers", strconv.Itoa(spec.RaceWorkers), "-budget", fmt.Sprint(budget), "-cur", p.cur, "-out", p.out)
		p.cmd.Env = raceEnv(p.log)
		p.errf, _ = os.Create(filepath.Join(tmp, fmt.Sprintf("race%d.err", i)))
		p.cmd.Stderr = p.errf
		p.cmd.Stdout = p.errf
		if err := p.cmd.Start(); err != nil {
			fmt.Fprintln(os.Stderr, "CHECK-TROUBLE: start race worker:", err)
			os.Exit(2)
		}
		ps = append(ps, p)
	}
	return ps
}

// raceClass extracts, from a race report, the innermost raft-wal function of
// each of the two access stacks ("?" where the detector kept only the frames of
// a sync/atomic primitive). ok=false when neither stack shows raft-wal or when
// one of them is an access on behalf of the harness.
func raceClass(report string) (string, bool) {
	var stacks [][]string
	var cur []string
	in := false
	for _, line := range strings.Split(report, "\n") {
		t := strings.TrimSpace(line)
		switch {
		case strings.HasPrefix(t, "Write at ") || strings.HasPrefix(t, "Read at ") || strings.HasPrefix(t, "Previous write at ") || strings.HasPrefix(t, "Previous read at ") ||
			strings.HasPrefix(t, "Atomic write at ") || strings.HasPrefix(t, "Atomic read at ") || strings.HasPrefix(t, "Previous atomic write at ") || strings.HasPrefix(t, "Previous atomic read at "):
			if in {
				stacks = append(stacks, cur)
			}
			cur, in = nil, true
		case strings.HasPrefix(t, "Goroutine ") && in:
			stacks = append(stacks, cur)
			cur, in = nil, false
		case in && strings.HasPrefix(line, "  ") && !strings.HasPrefix(line, "   ") && t != "":
			cur = append(cur, t)
		}
	}
	if in {
		stacks = append(stacks, cur)
	}
	if len(stacks) < 2 {
		return "", false
	}
	var fns []string
	known := 0
	for _, st := range stacks[:2] {
		fn := ""
		foreign := false
		for _, f := range st {
			if strings.HasPrefix(f, "github.com/hashicorp/raft-wal") && !strings.Contains(f, "/verifhook.") {
				fn = strings.TrimSuffix(strings.TrimPrefix(f, "github.com/hashicorp/raft-wal"), "()")
				break
			}
			if !strings.HasPrefix(f, "sync/atomic.") && !strings.HasPrefix(f, "sync.") && !strings.HasPrefix(f, "internal/") {
				foreign = true
			}
		}
		switch {
		case fn != "":
			known++
		case foreign:
			// the innermost frames belong to neither raft-wal nor a synchronisation
			// primitive it called: an access made on behalf of the harness
			return "", false
		default:
			// the detector's history of a previous access keeps few frames: an
			// atomic or sync primitive whose caller was dropped
			fn = "?"
		}
		fns = append(fns, fn)
	}
	if known == 0 {
		return "", false
	}
	sort.Strings(fns)
	return "data-race:" + fns[0] + "|" + fns[1], true
}

func readRaceLogs(prefix string) string {
	m, _ := filepath.Glob(prefix + ".*")
	sort.Strings(m)
	var sb strings.Builder
	for _, f := range m {
		b, _ := os.ReadFile(f)
		sb.Write(b)
	}
	return sb.String()
}

func collectRaceWorkers(ps []raceProc, prop, tier, replays string, merged *WorkerOut, trouble *[]string) map[string]interface{} {
	if len(ps) == 0 {
		return nil
	}
	runs := 0
	reports := 0
	var firsts []uint64
	for i, p := range ps {
		err := p.cmd.Wait()
		p.errf.Close()
		code := 0
		if p.cmd.ProcessState != nil {
			code = p.cmd.ProcessState.ExitCode()
		}
		switch {
		case err == nil:
			var o struct {
				Runs        int      `json:"runs"`
				First       uint64   `json:"first_seed"`
				HarnessErrs []string `json:"harness_errs"`
			}
			b, _ := os.ReadFile(p.out)
			if json.Unmarshal(b, &o) != nil {
				*trouble = append(*trouble, fmt.Sprintf("race worker %d wrote no result", i))
				continue
			}
			runs += o.Runs
			firsts = append(firsts, o.First)
			*trouble = append(*trouble, o.HarnessErrs...)
		case code == raceExit:
			reports++
			report := readRaceLogs(p.log)
			cb, _ := os.ReadFile(p.cur)
			seed, _ := strconv.ParseUint(strings.TrimSpace(string(cb)), 10, 64)
			class, ok := raceClass(report)
			if !ok || seed == 0 {
				*trouble = append(*trouble, fmt.Sprintf("race worker %d (seed %d): report without raft-wal frames on both sides - the harness, not the code under test:\n%s", i, seed, report))
				continue
			}
			cfg, plan := Generate(prop, seed, tier)
			rp := &Replay{Property: prop, Seed: seed, Config: cfg, Plan: plan, FromSeed: true, Race: true,
				Violation: &Violation{Property: prop, Oracle: "race-detector", Class: class, Message: "the Go race detector reports a data race in raft-wal under this seeded schedule:\n" + report},
				Note:      "replay re-executes the seed under the race build of walsim (edge-free scheduler hand-off); see scripts/check.sh for how bin/walsim-race is built"}
			path := filepath.Join(replays, fmt.Sprintf("%s-race-%d.json", prop, seed))
			rp.Write(path)
			merged.Violations = append(merged.Violations, FoundViolation{Class: class, Oracle: "race-detector", Message: rp.Violation.Message, Replay: path, Seed: seed})
		default:
			eb, _ := os.ReadFile(strings.TrimSuffix(p.out, ".json") + ".err")
			*trouble = append(*trouble, fmt.Sprintf("race worker %d died: %v\n%s", i, err, tailBytes(eb, 4000)))
		}
	}
	return map[string]interface{}{
		"race_stage_runs":        runs,
		"race_stage_workers":     len(ps),
		"race_stage_reports":     reports,
		"race_stage_first_seeds": firsts,
		"race_stage":             "same generator, seeds salted; race build with edge-free hand-off, GORACE=halt_on_error=1; oracle verdicts of these runs are not used",
	}
}

// replayRace re-executes a race replay under the race build next to this
// binary and exits with the verdict.
func replayRace(rp *Replay, file string) {
	exe, _ := os.Executable()
	racebin := filepath.Join(filepath.Dir(exe), "walsim-race")
	if _, err := os.Stat(racebin); err != nil {
		fmt.Printf("race build %s missing (scripts/check.sh %s quick builds it)\n", racebin, rp.Property)
		os.Exit(2)
	}
	tmp, err := os.MkdirTemp("", "walsim-race-")
	if err != nil {
		fmt.Println(err)
		os.Exit(2)
	}
	defer os.RemoveAll(tmp)
	cmd := exec.Command(racebin, "replay", file)
	cmd.Env = raceEnv(filepath.Join(tmp, "log"))
	ob, _ := cmd.CombinedOutput()
	code := -1
	if cmd.ProcessState != nil {
		code = cmd.ProcessState.ExitCode()
	}
	switch code {
	case 0:
		os.RemoveAll(tmp)
		fmt.Println("no violation")
		os.Exit(0)
	case raceExit:
		report := readRaceLogs(filepath.Join(tmp, "log"))
		os.RemoveAll(tmp)
		class, ok := raceClass(report)
		if !ok {
			fmt.Printf("race report without raft-wal frames on both sides:\n%s\n", report)
			os.Exit(2)
		}
		fmt.Printf("class=%s\n%s\n", class, report)
		fmt.Printf("VIOLATION property=%s replay=%s\n", rp.Property, file)
		os.Exit(1)
	default:
		os.RemoveAll(tmp)
		fmt.Printf("race replay ended with exit code %d:\n%s\n", code, tailBytes(ob, 4000))
		os.Exit(2)
	}
}
