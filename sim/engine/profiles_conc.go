package engine

func init() {
	generators["C14"] = func(p *pg) (Config, Plan) { return p.genC14() }
	generators["C06"] = func(p *pg) (Config, Plan) { return p.genC06("C06") }
}

// genC06: one writer (appends with rotation, head / tail / full truncation,
// re-append of different content at the same indexes, base-index resets) and
// 1-4 readers; the interleaving at every seam call and hook point is chosen by
// the simulator.
func (p *pg) genC06(profile string) (Config, Plan) {
	c := p.baseConfig(profile)
	c.Strict = false
	c.Readers = 1 + p.r.Intn(4)
	c.SegSize = []int{64, 128, 200, 256, 512, 1024, 4096}[p.r.Intn(7)]
	switch p.r.Intn(3) {
	case 0:
		c.StickNum, c.StickDen = 0, 0
	case 1:
		c.StickNum, c.StickDen = 1, 2
	default:
		c.StickNum, c.StickDen = 4, 5
	}
	kinds := []string{"append", "append", "append", "deltail", "deltail", "delhead", "delhead", "delall", "yield"}
	mix := p.swarmMix(kinds, "append")
	n := p.ops(6 + p.r.Intn(22))
	var plan Plan
	// a fifth of the runs read and write entries on both sides of (and well
	// beyond) the 64 KiB read buffer: the two-read path of the segment reader and
	// its buffer hand-back run under every reader interleaving
	bigReads := p.r.Intn(5) == 0
	if bigReads {
		c.SegSize = []int{4096, 65536, 1 << 20}[p.r.Intn(3)]
	}
	// seed the log so that readers have something to read from the start
	plan.Ops = append(plan.Ops, p.appendOp())
	for i := 0; i < n; i++ {
		op := p.draw(mix)
		if op.Kind == "append" {
			for j := range op.Sizes {
				if bigReads {
					switch p.r.Intn(4) {
					case 0:
						op.Sizes[j] = 65536 - 64 + p.r.Intn(128)
					case 1:
						op.Sizes[j] = 70000 + p.r.Intn(200000)
					}
					continue
				}
				if op.Sizes[j] > 4000 {
					op.Sizes[j] = 40
				}
			}
		}
		plan.Ops = append(plan.Ops, op)
		if (op.Kind == "deltail" || op.Kind == "delall") && p.r.Intn(2) == 0 {
			// re-append different content at the truncated indexes
			plan.Ops = append(plan.Ops, p.appendOp())
		}
	}
	return c, plan
}

// genC14: a short seeding plan (so that a rotation may be pending and several
// segments exist); the racing tasks and the moment of Close are drawn from the
// tape at run time.
func (p *pg) genC14() (Config, Plan) {
	c := p.baseConfig("C14")
	c.Strict = false
	c.SegSize = []int{64, 128, 200, 256, 512, 4096}[p.r.Intn(6)]
	c.StickNum, c.StickDen = []int{0, 1, 3}[p.r.Intn(3)], 4
	var plan Plan
	n := 1 + p.r.Intn(4)
	for i := 0; i < n; i++ {
		op := p.appendOp()
		for j := range op.Sizes {
			if op.Sizes[j] > 4000 {
				op.Sizes[j] = 40
			}
		}
		op.Var = 0
		plan.Ops = append(plan.Ops, op)
	}
	return c, plan
}
