package engine

import (
	"bytes"
	"encoding/binary"
	"errors"
	"fmt"
	"strings"

	"github.com/hashicorp/raft"
	"github.com/hashicorp/raft-wal/metrics"
	"github.com/hashicorp/raft-wal/verifier"
	"verif/sim/sched"
	"verif/sim/tape"
)

func init() {
	for _, id := range []string{"C16", "C17", "C18"} {
		id := id
		generators[id] = func(p *pg) (Config, Plan) {
			c := p.baseConfig(id)
			c.Readers = 2 + p.r.Intn(3) // number of nodes
			c.SegSize = []int{256, 1024, 4096}[p.r.Intn(3)]
			return c, Plan{}
		}
		customRunners[id] = runCluster
	}
}

// nodeStore wraps a node's inner store: every call is a yield point; GetLog can
// return an altered copy (corruption at rest).
type nodeStore struct {
	inner    raft.LogStore
	sim      *sched.Sim
	restIdx  uint64 // index whose reads come back altered (0 = none)
	restMut  func(*raft.Log)
	getCalls int
	altered  int    // reads served altered
	swapA    uint64 // reads of swapA and swapA+1 are exchanged (0 = none)

	// error faults: the k-th matching call from now fails with errInjected before
	// reaching the inner store (0 = none armed); fired* count the faults that fired
	failStoreIn, failDeleteIn  int
	failVReadIn, failVFirstIn  int // GetLog / FirstIndex issued by the verifier goroutine
	failDriverIn               int // FirstIndex / LastIndex / GetLog issued by the driver (transparency probes)
	firedStore, firedDelete    int
	firedVRead, firedDriver    int
	vNotFound                  int // ErrLogNotFound answers given to the verifier goroutine
}

// errInjected is what an injected inner-store (or IsCheckpointFn) fault returns.
var errInjected = errors.New("injected inner-store error")

// tick counts an armed fault down; true = this call is the failing one.
func tick(p *int) bool {
	if *p == 0 {
		return false
	}
	*p--
	return *p == 0
}

func (s *nodeStore) byVerifier() bool {
	t := s.sim.Current()
	return t != nil && t.Name == "verifier"
}

func (s *nodeStore) FirstIndex() (uint64, error) {
	s.sim.MaybeYield("inner:FirstIndex")
	if s.byVerifier() {
		if tick(&s.failVFirstIn) {
			s.firedVRead++
			return 0, errInjected
		}
	} else if tick(&s.failDriverIn) {
		s.firedDriver++
		return 0, errInjected
	}
	return s.inner.FirstIndex()
}
func (s *nodeStore) LastIndex() (uint64, error) {
	s.sim.MaybeYield("inner:LastIndex")
	if !s.byVerifier() && tick(&s.failDriverIn) {
		s.firedDriver++
		return 0, errInjected
	}
	return s.inner.LastIndex()
}
func (s *nodeStore) GetLog(i uint64, l *raft.Log) error {
	s.sim.MaybeYield("inner:GetLog")
	s.getCalls++
	if s.byVerifier() {
		if tick(&s.failVReadIn) {
			s.firedVRead++
			return errInjected
		}
	} else if tick(&s.failDriverIn) {
		s.firedDriver++
		return errInjected
	}
	if s.swapA != 0 && (i == s.swapA || i == s.swapA+1) {
		// at-rest corruption: two neighbouring entries come back in each other's place
		j := s.swapA
		if i == s.swapA {
			j = s.swapA + 1
		}
		err := s.inner.GetLog(j, l)
		if t := s.sim.Current(); err == nil && t != nil && t.Name == "verifier" {
			s.altered++
		}
		return err
	}
	err := s.inner.GetLog(i, l)
	if err != nil && s.byVerifier() && errors.Is(err, raft.ErrLogNotFound) {
		s.vNotFound++ // the store told a verification that it lacks an entry of its range
	}
	if err == nil && s.restIdx == i && s.restMut != nil {
		s.restMut(l)
		if t := s.sim.Current(); t != nil && t.Name == "verifier" {
			s.altered++
		}
	}
	return err
}
func (s *nodeStore) StoreLog(l *raft.Log) error { return s.StoreLogs([]*raft.Log{l}) }
func (s *nodeStore) StoreLogs(ls []*raft.Log) error {
	s.sim.MaybeYield("inner:StoreLogs")
	if tick(&s.failStoreIn) {
		s.firedStore++
		return errInjected
	}
	return s.inner.StoreLogs(ls)
}
func (s *nodeStore) DeleteRange(a, b uint64) error {
	s.sim.MaybeYield("inner:DeleteRange")
	if tick(&s.failDeleteIn) {
		s.firedDelete++
		return errInjected
	}
	return s.inner.DeleteRange(a, b)
}

type cpInfo struct {
	end      uint64
	start    uint64
	leader   int
	contents []*raft.Log // what the leader checksummed: its entries [start,end)
	data     string      // the checkpoint entry's (unique) payload
	unknown  bool        // the leader no longer held the whole range when it wrote the checkpoint
}

type cnode struct {
	id                int
	mem               *memStore
	wrap              *nodeStore
	ls                *verifier.LogStore
	mc                *metrics.AtomicCollector
	gateOpen          bool
	triggered         int // checkpoints stored through the current LogStore instance
	delivered         int
	drops             int // drops observed through the metric at the last accounting
	lastEnd           uint64
	dropped           []dropRec // dropped checkpoints not yet named by a SkippedRange
	trigSeq           int       // checkpoints triggered (queued or dropped) on this instance, in order
	queued            []int     // trigSeq of the reports queued and not yet delivered (FIFO)
	contiguous        bool                // no leader change / restart since the last delivered report
	pendingWrittenMut map[uint64]bool     // indexes this node stored altered (in flight)
	gen               int
	mismatches        int // reports of the current instance that carried ErrChecksumMismatch
	alteredSeen       int
	snapIdx, snapTerm uint64 // last entry removed by this node's own head truncation ("snapshot")
	cpFailIn, cpFired int    // IsCheckpointFn error fault (k-th call from now), faults fired
	vfailSeen         int    // verifier read faults already attributed to a report
	vnfSeen           int    // not-found answers already attributed to a report
	queuedStart       []uint64 // Range.Start of the reports queued and not yet delivered (parallel to queued)
}

// dropRec: a checkpoint whose report was dropped, with its place in the order
// in which the instance's checkpoints were triggered.
type dropRec struct {
	seq int
	rng verifier.LogRange
}

type cluster struct {
	prop   string
	mode   string // C16 C17 C18
	tp     *tape.Tape
	sim    *sched.Sim
	nodes  []*cnode
	cps    map[uint64][]*cpInfo
	term   uint64
	leader int
	viol   *Violation
	probes Counters
	fired  Counters
	log    []string
	sig    []string

	mutated     bool
	mutNode     int
	mutIdx      uint64
	mutKind     string // "rest" | "flight"
	mutField    string
	mutDetected bool
	mutExpected int // reports that had to flag the mutation
	nextData    uint64

	errRun  bool // this run injects inner-store / IsCheckpointFn errors
	// noQuiet (half of the C18 runs): truncations do not wait for the node's
	// verifier to be idle, so a DeleteRange meets reports that are queued or held
	// by a blocked ReportFn. Reports are then not judged against ground truth
	// (their ranges may legitimately change under them: C16's side condition);
	// what is decided is C18's accounting: one report or one counted drop per
	// checkpoint, SkippedRange, transparency, no blocking.
	noQuiet bool
	// racyHead (half of the C16 / C17 runs): head compaction does not wait for the
	// verifier either, but stays strictly below every queued / running range
	racyHead bool

	inStore bool   // the driver is inside a StoreLogs call of the middleware
	trig    []byte // 'S' / 'D' per triggerVerify of that call: queued / dropped
	aborted bool // an oracle of another property failed: the run ends without a verdict
}

// oracleOwner: which property's statement an oracle encodes. A run of another
// property ignores its failure (and stops, because driver and stores may be out
// of step) instead of reporting it under the wrong property.
func oracleOwner(oracle string) string {
	switch oracle {
	case "no-false-alarm":
		return "C16"
	case "detects-divergence", "blame-correct":
		return "C17"
	}
	return "C18" // transparent, drop-accounting, report-wellformed, no-panic, appends-never-block
}

func (c *cluster) stopped() bool { return c.viol != nil || c.aborted }

func (c *cluster) logf(f string, a ...interface{}) {
	if len(c.log) < 400 {
		c.log = append(c.log, fmt.Sprintf(f, a...))
	}
}

func (c *cluster) violate(oracle, class, format string, args ...interface{}) {
	if oracleOwner(oracle) != c.mode {
		if !c.aborted {
			c.probes.Add("ignored_"+oracle, 1)
			c.logf("ignored (%s's oracle %s/%s): %s", oracleOwner(oracle), oracle, class, fmt.Sprintf(format, args...))
		}
		c.aborted = true
		return
	}
	if c.viol == nil && !c.aborted {
		c.viol = &Violation{Property: c.prop, Oracle: oracle, Class: class, Message: fmt.Sprintf(format, args...)}
		c.logf("VIOLATION %s", c.viol.Error())
	}
}

func isCP(l *raft.Log) (bool, error) { return bytes.HasPrefix(l.Data, []byte("CP")), nil }

func cloneLog(l *raft.Log) *raft.Log {
	c := *l
	c.Data = append([]byte(nil), l.Data...)
	c.Extensions = append([]byte(nil), l.Extensions...)
	return &c
}

func sameLogIgnoringIndex(a, b *raft.Log) bool {
	return a.Term == b.Term && a.Type == b.Type && bytes.Equal(a.Data, b.Data) && bytes.Equal(a.Extensions, b.Extensions) && a.Index == b.Index
}

func sameLog(a, b *raft.Log) bool {
	return a.Index == b.Index && a.Term == b.Term && a.Type == b.Type && bytes.Equal(a.Data, b.Data) && bytes.Equal(a.Extensions, b.Extensions)
}

func (c *cluster) newVerifier(n *cnode) {
	n.gen++
	n.triggered, n.delivered, n.lastEnd, n.dropped, n.contiguous, n.mismatches = 0, 0, 0, nil, false, 0
	n.trigSeq, n.queued, n.queuedStart = 0, nil, nil
	n.vnfSeen = n.wrap.vNotFound
	n.mc = metrics.NewAtomicCollector(verifier.MetricDefinitions)
	node := n
	gen := n.gen
	c.sim.SetSpawnCtx(fmt.Sprintf("n%d.%d", n.id, n.gen))
	cur := c.sim.Current()
	if cur != nil {
		cur.Ctx = fmt.Sprintf("n%d.%d", n.id, n.gen)
	}
	n.vfailSeen = n.wrap.firedVRead
	cpFn := func(l *raft.Log) (bool, error) {
		if tick(&node.cpFailIn) {
			node.cpFired++
			return false, errInjected
		}
		return isCP(l)
	}
	n.ls = verifier.NewLogStore(n.wrap, cpFn, func(r verifier.VerificationReport) {
		c.onReport(node, gen, r)
	}, n.mc)
	// one spawn per yield so that the adopted goroutine is attributed correctly
	c.sim.Yield("after-spawn")
}

// useNode must be called before the driver calls into a node's LogStore: the
// verifier hooks carry no key, the calling task's context says which verifier
// instance a notification belongs to.
func (c *cluster) useNode(n *cnode) {
	if cur := c.sim.Current(); cur != nil {
		cur.Ctx = fmt.Sprintf("n%d.%d", n.id, n.gen)
	}
}

func (c *cluster) stored(n *cnode, i uint64) *raft.Log {
	return n.mem.m[i]
}

// onReport runs in the verifier goroutine of node n.
func (c *cluster) onReport(n *cnode, gen int, r verifier.VerificationReport) {
	if gen != n.gen {
		return // a report of a LogStore instance that has been replaced
	}
	if c.mode == "C18" && !n.gateOpen {
		c.probes.Add("reportfn_blocked", 1)
		c.sim.WaitUntil("reportfn-gate", func() bool { return n.gateOpen })
	}
	n.delivered++
	var mm verifier.ErrChecksumMismatch
	if errors.As(r.Err, &mm) {
		n.mismatches++
	}
	var cp *cpInfo
	for _, x := range c.cps[r.Range.End] {
		// the same index may have carried checkpoints of different leaders
		// (conflicting suffixes); the range start tells them apart
		if x.start == r.Range.Start {
			if e := n.mem.m[r.Range.End]; e != nil && string(e.Data) != x.data {
				continue // another leader's checkpoint at the same index
			}
			cp = x
		}
	}
	if cp == nil && len(c.cps[r.Range.End]) > 0 {
		cp = c.cps[r.Range.End][len(c.cps[r.Range.End])-1]
	}
	c.logf("report n%d range=%s expected=%x written=%x read=%x skipped=%v err=%v", n.id, r.Range, r.ExpectedSum, r.WrittenSum, r.ReadSum, r.SkippedRange, r.Err)
	lacked := n.wrap.vNotFound > n.vnfSeen
	n.vnfSeen = n.wrap.vNotFound
	if lacked {
		// during this verification the store answered "not found" for an index of
		// the range: the node lacked part of it, whatever happened before or after.
		// That is never corruption (C16's last sentence), also when the range was
		// cut by a truncation while the report was waiting in the queue.
		c.probes.Add("reports_range_lacked_at_read", 1)
		var mmm verifier.ErrChecksumMismatch
		if errors.As(r.Err, &mmm) {
			c.violate("no-false-alarm", "lacking-range-reported-as-corruption", "node %d: the store returned not-found for an entry of %s while it was verified, yet the report says: %v", n.id, r.Range, r.Err)
			return
		}
	}
	if c.noQuiet {
		c.skippedRangeOracle(n, r)
		n.lastEnd = r.Range.End
		n.vfailSeen = n.wrap.firedVRead
		return
	}
	if lacked {
		c.skippedRangeOracle(n, r)
		n.lastEnd = r.Range.End
		return // (only reachable in racy-compaction runs; nothing else to judge)
	}
	if cp == nil {
		c.violate("report-wellformed", "report-for-unknown-checkpoint", "node %d delivered a report for range %s, no checkpoint ends there", n.id, r.Range)
		return
	}
	if r.Range.Start != cp.start {
		c.violate("report-wellformed", "report-range-start", "node %d report range %s, the leader checksummed [%d,%d)", n.id, r.Range, cp.start, cp.end)
		return
	}
	if cp.unknown {
		c.probes.Add("reports_truth_unknown", 1)
		n.lastEnd = r.Range.End
		return
	}
	if !c.skippedRangeOracle(n, r) {
		return
	}
	n.lastEnd = r.Range.End
	// ground truth: what this node holds for the range vs what the leader checksummed
	has := n.mem.first != 0 && n.mem.first <= cp.start
	equal := has
	diffAt := uint64(0)
	if has {
		for i, want := range cp.contents {
			got := c.stored(n, cp.start+uint64(i))
			if got == nil {
				has, equal = false, false
				break
			}
			if !sameLog(want, got) {
				equal = false
				diffAt = want.Index
				c.logf("truth: n%d[%d]={t%d ty%d d%q e%q} leader={t%d ty%d d%q e%q}", n.id, want.Index, got.Term, got.Type, got.Data, got.Extensions, want.Term, want.Type, want.Data, want.Extensions)
				break
			}
		}
	}
	var mismatch verifier.ErrChecksumMismatch
	isMismatch := errors.As(r.Err, &mismatch)
	// an at-rest mutation counts for this report only if the altered entry was
	// actually served to this verification (it may have been armed after the
	// verifier had read the range)
	restHit := c.mutated && c.mutKind == "rest" && c.mutNode == n.id && c.mutIdx >= cp.start && c.mutIdx < cp.end && n.wrap.altered > n.alteredSeen
	n.alteredSeen = n.wrap.altered
	if n.wrap.firedVRead > n.vfailSeen {
		// a read of the inner store failed during this verification: the range was
		// not verified; the report must say so with the store's error, and must not
		// call it a checksum mismatch
		n.vfailSeen = n.wrap.firedVRead
		c.probes.Add("reports_after_read_error", 1)
		switch {
		case isMismatch && has && equal:
			c.violate("no-false-alarm", "false-alarm:read-error", "node %d stores %s as checksummed; a read of its store failed during the verification and the report says: %v", n.id, r.Range, r.Err)
		case !isMismatch && !errors.Is(r.Err, errInjected):
			c.violate("transparent", "verifier-read-error-lost", "node %d: a read of the inner store failed while verifying %s but the report carries %v", n.id, r.Range, r.Err)
		}
		return
	}
	switch {
	case !has:
		c.probes.Add("reports_range_not_held", 1)
		if c.mode == "C16" && !errors.Is(r.Err, verifier.ErrRangeMismatch) {
			c.violate("no-false-alarm", "range-not-held-wrong-error", "node %d lacks part of %s (first index %d) but the report says %v, want ErrRangeMismatch", n.id, r.Range, n.mem.first, r.Err)
		}
	case equal && !restHit:
		c.probes.Add("reports_clean_range", 1)
		if (c.mode == "C16" || c.mode == "C18") && r.Err != nil {
			cls := "false-alarm:other-error"
			if isMismatch {
				cls = "false-alarm:storage"
				if strings.Contains(string(mismatch), "in-flight") {
					cls = "false-alarm:in-flight"
				}
			}
			c.violate("no-false-alarm", cls, "node %d stores every entry of %s exactly as leader %d checksummed it, yet the report says: %v", n.id, r.Range, cp.leader, r.Err)
		}
		if c.mode == "C17" && isMismatch && strings.Contains(string(mismatch), "in-flight") {
			c.violate("blame-correct", "in-flight-blamed-wrongly", "node %d wrote exactly what the leader checksummed for %s but the report blames in-flight corruption: %v", n.id, r.Range, r.Err)
		}
	default:
		// the range differs on this node (stored differently, or read back altered)
		c.probes.Add("reports_divergent_range", 1)
		c.logf("divergent: has=%v equal=%v restHit=%v diffAt=%d altered=%d seen=%d cpLeader=%d cpData=%q", has, equal, restHit, diffAt, n.wrap.altered, n.alteredSeen, cp.leader, cp.data)
		if c.mode == "C17" {
			c.mutExpected++
			if !isMismatch {
				c.violate("detects-divergence", "divergence-missed:"+c.mutKind+":"+c.mutField, "node %d: entry %d of range %s differs from what leader %d checksummed (%s mutation of %s) but the report carries %v instead of ErrChecksumMismatch", n.id, maxu(diffAt, c.mutIdx), r.Range, cp.leader, c.mutKind, c.mutField, r.Err)
				return
			}
			c.mutDetected = true
			inflight := strings.Contains(string(mismatch), "in-flight")
			if inflight && equal {
				c.violate("blame-correct", "in-flight-blamed-wrongly", "node %d stored the range %s as checksummed (the store returned it altered) but the report blames in-flight corruption", n.id, r.Range)
			}
		}
	}
}

// skippedRangeOracle (C18): every checkpoint that was dropped before this
// report's range must be named by its SkippedRange. false = violation raised.
func (c *cluster) skippedRangeOracle(n *cnode, r verifier.VerificationReport) bool {
	// "the report following a drop": the first report triggered after it. Reports
	// are delivered in the order they were queued.
	rseq := int(^uint(0) >> 1)
	if len(n.queued) > 0 {
		rseq = n.queued[0]
		n.queued = n.queued[1:]
		n.queuedStart = n.queuedStart[1:]
	}
	var pend []verifier.LogRange
	var keep []dropRec
	for _, d := range n.dropped {
		if d.seq < rseq {
			if d.rng.Start < d.rng.End { // an empty range (checkpoint right after a reset) needs no naming
				pend = append(pend, d.rng)
			}
		} else {
			keep = append(keep, d)
		}
	}
	n.dropped = keep
	if len(pend) > 0 {
		lo, hi := pend[0].Start, pend[0].End
		for _, d := range pend {
			if d.Start < lo {
				lo = d.Start
			}
			if d.End > hi {
				hi = d.End
			}
		}
		// every index of a dropped checkpoint's range must be accounted for: named
		// by SkippedRange, or inside this report's own range (then it was verified
		// after all: a new leader's range may start below the dropped checkpoint)
		uncovered := false
		for i := lo; i < hi && !uncovered; i++ {
			inSkipped := r.SkippedRange != nil && i >= r.SkippedRange.Start && i < r.SkippedRange.End
			inRange := i >= r.Range.Start && i < r.Range.End
			uncovered = !inSkipped && !inRange
		}
		if uncovered {
			if c.mode == "C18" {
				class := "skipped-range-wrong"
				if lo < n.lastEnd {
					// a dropped checkpoint's range begins before the end of the report
					// delivered last. Within one generation of the log that cannot happen
					// (a drop follows the queued report, whose range precedes it): a
					// truncation made the log re-use those indexes while reports of the
					// truncated suffix were still pending. The verifier infers skips from
					// the index gap between consecutive reports and cannot see this one.
					class = "skipped-range-wrong:index-reuse-after-truncation"
				}
				c.violate("drop-accounting", class, "node %d: checkpoints covering [%d,%d) were dropped before the report for %s, whose SkippedRange is %v (previous delivered report ended at %d)", n.id, lo, hi, r.Range, r.SkippedRange, n.lastEnd)
				return false
			}
		} else {
			c.probes.Add("skipped_range_named", 1)
			if n.contiguous && (r.SkippedRange.Start != lo || r.SkippedRange.End != hi) && c.mode == "C18" {
				c.violate("drop-accounting", "skipped-range-inexact", "node %d: dropped ranges span exactly [%d,%d) but SkippedRange is %v", n.id, lo, hi, r.SkippedRange)
				return false
			}
		}
	}
	return true
}

func maxu(a, b uint64) uint64 {
	if a > b {
		return a
	}
	return b
}

func (c *cluster) newEntry(idx uint64, cp bool) *raft.Log {
	c.nextData++
	l := &raft.Log{Index: idx, Term: c.term, Type: raft.LogCommand}
	if cp {
		l.Data = []byte(fmt.Sprintf("CP%d", c.nextData))
		return l
	}
	n := []int{0, 1, 8, 30, 200}[c.tp.Choose(5)]
	l.Data = make([]byte, n)
	fill8(l.Data, c.nextData)
	switch c.tp.Choose(8) {
	case 0:
		l.Type = raft.LogNoop
	case 1:
		l.Extensions = []byte(fmt.Sprintf("ext%d", c.nextData))
	case 2:
		// membership changes happen at any index, not only at bootstrap
		l.Type = raft.LogConfiguration
	case 3:
		l.Type = []raft.LogType{raft.LogBarrier, raft.LogAddPeerDeprecated, raft.LogRemovePeerDeprecated, raft.LogType(255)}[c.tp.Choose(4)]
	}
	return l
}

func fill8(b []byte, seed uint64) {
	x := seed*0x9e3779b97f4a7c15 + 1
	for i := range b {
		x ^= x << 13
		x ^= x >> 7
		x ^= x << 17
		b[i] = byte(x)
	}
}

// last is raft's lastIndex: the last log entry, or the snapshot's index when the
// log holds nothing beyond it.
func (c *cluster) last(n *cnode) uint64 {
	if n.mem.last == 0 {
		return n.snapIdx
	}
	return n.mem.last
}

// lastTerm is the term that goes with last.
func (c *cluster) lastTerm(n *cnode) uint64 {
	if n.mem.last == 0 {
		return n.snapTerm
	}
	return n.mem.m[n.mem.last].Term
}

// commitIndex: the highest index of the leader's log that a majority of the
// nodes hold with the same term (or have behind their snapshot). Only committed
// entries may be compacted away ("snapshotted") by a node.
func (c *cluster) commitIndex() uint64 {
	L := c.nodes[c.leader]
	if L.mem.last == 0 {
		return L.snapIdx
	}
	for i := L.mem.last; i >= L.mem.first && i > 0; i-- {
		cnt := 0
		for _, o := range c.nodes {
			if e := o.mem.m[i]; (e != nil && e.Term == L.mem.m[i].Term) || (o.snapIdx >= i && o.mem.first > i) {
				cnt++
			}
		}
		if cnt*2 > len(c.nodes) {
			return i
		}
	}
	return L.snapIdx
}

// waitQuiet waits until every checkpoint stored through node n's current
// LogStore has been reported or counted as dropped.
func (c *cluster) waitQuiet(n *cnode) {
	if c.mode == "C18" {
		n.gateOpen = true
	}
	drained := c.sim.VerifierDrained(fmt.Sprintf("n%d.%d", n.id, n.gen))
	c.sim.WaitUntil("wait-verifier-quiet", func() bool {
		d := int(n.mc.Summary().Counters["dropped_reports"])
		// either every stored checkpoint is accounted for, or the verifier has
		// nothing left to do (then the accounting oracle at the end decides
		// whether a checkpoint was neither reported nor counted as dropped)
		return n.delivered+d >= n.triggered || drained()
	})
}

// storeVia appends a batch through node n's verifying store.
func (c *cluster) storeVia(n *cnode, batch []*raft.Log) error {
	err, _ := c.storeViaF(n, batch)
	return err
}

// storeViaF also tells whether an injected fault (inner StoreLogs or
// IsCheckpointFn) fired inside the call; the error must then be the injected
// one and nothing may have been stored or accounted.
func (c *cluster) storeViaF(n *cnode, batch []*raft.Log) (error, bool) {
	c.useNode(n)
	before := int(n.mc.Summary().Counters["dropped_reports"])
	firedBefore := n.wrap.firedStore + n.cpFired
	lastBefore, cpwBefore := n.mem.last, n.mc.Summary().Counters["checkpoints_written"]
	var err error
	func() {
		defer func() {
			if r := recover(); r != nil {
				c.violate("no-panic", "panic:StoreLogs", "verifier StoreLogs panicked: %v", r)
				err = fmt.Errorf("panic")
			}
		}()
		c.trig = c.trig[:0]
		c.inStore = true
		err = n.ls.StoreLogs(batch)
		c.inStore = false
	}()
	trig := c.trig
	if n.wrap.firedStore+n.cpFired > firedBefore {
		c.fired.Add("inner_error_StoreLogs_or_checkpointFn", 1)
		switch {
		case err == nil:
			c.violate("transparent", "inner-error-swallowed", "node %d: the inner store (or IsCheckpointFn) failed inside StoreLogs but the middleware returned nil", n.id)
		case !errors.Is(err, errInjected):
			c.violate("transparent", "inner-error-replaced", "node %d: StoreLogs returned %v, the inner failure was %v", n.id, err, errInjected)
		case n.mem.last != lastBefore:
			c.violate("transparent", "stored-despite-error", "node %d: StoreLogs failed but the store grew %d -> %d", n.id, lastBefore, n.mem.last)
		case n.mc.Summary().Counters["checkpoints_written"] != cpwBefore || int(n.mc.Summary().Counters["dropped_reports"]) != before:
			c.violate("drop-accounting", "failed-append-accounted", "node %d: a failed StoreLogs changed checkpoints_written / dropped_reports", n.id)
		}
		if err == nil {
			err = errInjected
		}
		return err, true
	}
	if err == nil {
		var cpsInBatch []*raft.Log
		for _, l := range batch {
			if ok, _ := isCP(l); ok {
				n.triggered++
				cpsInBatch = append(cpsInBatch, l)
			}
		}
		after := int(n.mc.Summary().Counters["dropped_reports"])
		if after > before {
			c.probes.Add("reports_dropped", int64(after-before))
		}
		// which of the batch's checkpoints were queued and which dropped is read off
		// the verifier's own notifications, in order (the verifier may receive a
		// queued report between two of them, so "the last k" would be a guess)
		for i, l := range cpsInBatch {
			if i >= len(trig) {
				break // neither queued nor dropped: the accounting oracle decides
			}
			n.trigSeq++
			if trig[i] == 'S' {
				n.queued = append(n.queued, n.trigSeq)
				st := l.Index
				if len(l.Extensions) >= 24 {
					st = binary.LittleEndian.Uint64(l.Extensions[8:16])
				}
				n.queuedStart = append(n.queuedStart, st)
			} else if len(l.Extensions) >= 24 {
				st := binary.LittleEndian.Uint64(l.Extensions[8:16])
				n.dropped = append(n.dropped, dropRec{seq: n.trigSeq, rng: verifier.LogRange{Start: st, End: l.Index}})
			}
		}
	}
	return err, false
}

// leaderAppend: the leader appends k new entries (checkpoints at tape-chosen places).
func (c *cluster) leaderAppend(forceCP bool) {
	L := c.nodes[c.leader]
	k := 1 + c.tp.Choose(4)
	var batch []*raft.Log
	idx := c.last(L) + 1
	if idx == 1 && c.tp.Choose(2) == 0 {
		// bootstrap configuration entry at index 1 (deliberately ignored by the checksum)
		batch = append(batch, &raft.Log{Index: 1, Term: c.term, Type: raft.LogConfiguration, Data: []byte(fmt.Sprintf("cfg-node%d", L.id))})
		idx++
		k--
	}
	for i := 0; i < k; i++ {
		cp := c.tp.Choose(4) == 0 || (forceCP && i == k-1)
		batch = append(batch, c.newEntry(idx, cp))
		idx++
	}
	if len(batch) == 0 {
		return
	}
	startBefore := c.last(L) + 1
	for attempt := 0; ; attempt++ {
		err, injected := c.storeViaF(L, batch)
		if err == nil {
			break
		}
		if !injected {
			c.violate("transparent", "leader-append-failed", "leader %d StoreLogs failed: %v", L.id, err)
			return
		}
		if c.stopped() {
			return
		}
		// a failed append: retry the very same log values (a checkpoint among them
		// already carries the metadata the first attempt wrote into it), retry
		// fresh copies without that metadata, or give the batch up
		how := c.tp.Choose(3)
		c.logf("leader n%d append [%d..%d] failed (injected), policy %d", L.id, batch[0].Index, batch[len(batch)-1].Index, how)
		if how == 2 || attempt >= 2 {
			c.probes.Add("failed_append_abandoned", 1)
			return
		}
		if how == 1 {
			for i, l := range batch {
				cl := cloneLog(l)
				if ok, _ := isCP(cl); ok {
					cl.Extensions = nil
				}
				batch[i] = cl
			}
		}
		c.probes.Add("failed_append_retried", 1)
	}
	// record checkpoints: range start comes from the metadata the leader wrote
	for _, l := range batch {
		if ok, _ := isCP(l); !ok {
			continue
		}
		if len(l.Extensions) < 24 {
			c.violate("transparent", "checkpoint-without-metadata", "leader checkpoint %d has no verification metadata", l.Index)
			return
		}
		start := binary.LittleEndian.Uint64(l.Extensions[8:16])
		cp := &cpInfo{end: l.Index, start: start, leader: L.id, data: string(l.Data)}
		for i := start; i < l.Index; i++ {
			e := L.mem.m[i]
			if e == nil {
				// the leader's own range begins before its first index: nothing to compare
				cp.contents = nil
				cp.unknown = true
				break
			}
			cp.contents = append(cp.contents, cloneLog(e))
		}
		c.cps[l.Index] = append(c.cps[l.Index], cp)
		c.probes.Add("checkpoints", 1)
	}
	// transparency: stored entries equal what was passed (checkpoint metadata aside)
	for i, l := range batch {
		got := L.mem.m[startBefore+uint64(i)]
		if got == nil || !sameLog(got, l) {
			c.violate("transparent", "stored-differs", "leader %d stored index %d differently from what StoreLogs was given", L.id, l.Index)
			return
		}
	}
	c.logf("leader n%d term %d appended [%d..%d]", L.id, c.term, batch[0].Index, batch[len(batch)-1].Index)
}

// replicate sends the leader's entries to follower f in one batch of tape-chosen size.
func (c *cluster) replicate(f *cnode) {
	L := c.nodes[c.leader]
	if f == L || L.mem.last == 0 {
		return
	}
	// find the first index where f diverges from the leader (term conflict) or ends
	next := f.mem.last + 1
	if f.mem.last == 0 && f.snapIdx > 0 {
		// a follower whose log was emptied by truncations still has its snapshot:
		// raft resumes after it, it does not resend what the snapshot covers
		next = f.snapIdx + 1
	}
	if f.mem.last > L.mem.last {
		next = L.mem.last + 1
	}
	for i := maxu(f.mem.first, L.mem.first); i != 0 && i <= f.mem.last && i <= L.mem.last; i++ {
		a, b := f.mem.m[i], L.mem.m[i]
		if a == nil || b == nil {
			continue
		}
		if a.Term != b.Term {
			next = i
			break
		}
	}
	if L.mem.first > 1 && f.mem.last != 0 && f.mem.first < L.mem.first && next >= L.mem.first {
		// the follower holds entries the leader has compacted away: they are only
		// known to match if the entry at the leader's snapshot boundary has the
		// snapshot's term (raft's prevLogTerm check); otherwise install a snapshot
		if e := f.mem.m[L.mem.first-1]; e == nil || L.snapIdx != L.mem.first-1 || e.Term != L.snapTerm {
			next = 0
		}
	}
	if next < L.mem.first {
		// follower is behind the leader's snapshot: install = wipe and restart from leader's first
		if f.mem.last != 0 {
			if !c.noQuiet {
				c.waitQuiet(f)
			}
			c.useNode(f)
			c.disarmRest(f, 0, ^uint64(0))
			if !c.deleteVia(f, f.mem.first, f.mem.last) {
				return
			}
			// the whole log is replaced: dropped checkpoints of the old one can no
			// longer be named
			f.dropped = nil
			c.logf("follower n%d wiped for snapshot install", f.id)
		}
		next = L.mem.first
	}
	if next <= f.mem.last {
		// conflicting suffix: truncate it first (never while a verification of it may
		// run, except in C18's noQuiet runs where only the accounting is judged)
		if !c.noQuiet {
			c.waitQuiet(f)
		}
		c.useNode(f)
		if !c.deleteVia(f, next, f.mem.last) {
			return
		}
		c.disarmRest(f, next, ^uint64(0))
		// dropped checkpoints of the truncated generation can no longer be named
		var kept []dropRec
		for _, d := range f.dropped {
			if d.rng.End < next {
				kept = append(kept, d)
			}
		}
		f.dropped = kept
		c.probes.Add("conflict_truncations", 1)
		c.logf("follower n%d truncated suffix from %d", f.id, next)
	}
	if next > L.mem.last {
		return
	}
	n := 1 + c.tp.Choose(5)
	var batch []*raft.Log
	mutatedHere := false
	for i := next; i <= L.mem.last && len(batch) < n; i++ {
		e := cloneLog(L.mem.m[i])
		// in-flight mutation (C17): the copy handed to this follower differs
		if c.mode == "C17" && !c.mutated && c.tp.Choose(12) == 0 && !(e.Index == 1 && e.Type == raft.LogConfiguration) {
			if ok, _ := isCP(e); !ok {
				c.mutated, c.mutKind, c.mutNode, c.mutIdx = true, "flight", f.id, e.Index
				mutatedHere = true
				c.mutField = c.chooseMutation(false).apply(e)
				c.fired.Add("mutation_in_flight_"+c.mutField, 1)
				c.logf("MUTATION in flight: entry %d to n%d field %s", e.Index, f.id, c.mutField)
			}
		}
		batch = append(batch, e)
	}
	if err, injected := c.storeViaF(f, batch); err != nil {
		if injected {
			// nothing was stored; the altered copy (if any) never reached the node
			if mutatedHere {
				c.mutated = false
			}
			c.probes.Add("failed_replication", 1)
			c.logf("replication [%d..%d] to n%d failed (injected)", batch[0].Index, batch[len(batch)-1].Index, f.id)
			return
		}
		c.violate("transparent", "follower-append-failed", "follower %d StoreLogs failed: %v", f.id, err)
		return
	}
	c.logf("replicated [%d..%d] to n%d", batch[0].Index, batch[len(batch)-1].Index, f.id)
}

// deleteVia calls DeleteRange through node n's verifying store; false = it did
// not happen (an injected failure, which must surface unchanged and leave the
// store alone, or a violation).
func (c *cluster) deleteVia(n *cnode, lo, hi uint64) bool {
	if len(n.queued) > 0 {
		c.probes.Add("truncation_with_reports_pending", 1)
	}
	firedBefore := n.wrap.firedDelete
	f0, l0 := n.mem.first, n.mem.last
	err := n.ls.DeleteRange(lo, hi)
	if n.wrap.firedDelete > firedBefore {
		c.fired.Add("inner_error_DeleteRange", 1)
		switch {
		case err == nil:
			c.violate("transparent", "inner-error-swallowed", "node %d: the inner store failed inside DeleteRange but the middleware returned nil", n.id)
		case !errors.Is(err, errInjected):
			c.violate("transparent", "inner-error-replaced", "node %d: DeleteRange returned %v, the inner failure was %v", n.id, err, errInjected)
		case n.mem.first != f0 || n.mem.last != l0:
			c.violate("transparent", "deleted-despite-error", "node %d: DeleteRange failed but the store changed", n.id)
		}
		c.logf("DeleteRange(%d,%d) on n%d failed (injected)", lo, hi, n.id)
		return false
	}
	if err != nil {
		c.violate("transparent", "delete-failed", "DeleteRange: %v", err)
		return false
	}
	return true
}

// mutSpec is a single-field mutation chosen once and applicable to any copy.
type mutSpec struct {
	kind string
	pos  int
	bit  uint
}

func (c *cluster) chooseMutation(allowIndex bool) mutSpec {
	k := 6
	if allowIndex {
		k = 7
	}
	kinds := []string{"data-bitflip", "data-truncate", "data-extend", "term", "type", "extensions", "index"}
	return mutSpec{kind: kinds[c.tp.Choose(k)], pos: c.tp.Choose(1 << 16), bit: uint(c.tp.Choose(8))}
}

// apply alters one field of l and names what it did.
func (m mutSpec) apply(l *raft.Log) string {
	switch m.kind {
	case "data-bitflip":
		if len(l.Data) > 0 {
			l.Data = append([]byte(nil), l.Data...)
			l.Data[m.pos%len(l.Data)] ^= 1 << m.bit
			return "data-bitflip"
		}
		l.Data = []byte{1}
		return "data-extend"
	case "data-truncate":
		if len(l.Data) > 0 {
			l.Data = append([]byte(nil), l.Data[:len(l.Data)-1]...)
			return "data-truncate"
		}
		l.Data = []byte{0}
		return "data-extend"
	case "data-extend":
		l.Data = append(append([]byte(nil), l.Data...), 0)
		return "data-extend"
	case "term":
		l.Term++
		return "term"
	case "type":
		l.Type = l.Type + 1
		return "type"
	case "extensions":
		if len(l.Extensions) > 0 {
			l.Extensions = append([]byte(nil), l.Extensions...)
			l.Extensions[0] ^= 0x80
		} else {
			l.Extensions = []byte{7}
		}
		return "extensions"
	}
	l.Index++
	return "index"
}

func (c *cluster) changeLeader() {
	// any node whose log is at least as up to date as a majority's
	var cands []int
	for _, n := range c.nodes {
		cnt := 0
		for _, o := range c.nodes {
			lt, ot := c.lastTerm(n), c.lastTerm(o)
			if lt > ot || (lt == ot && c.last(n) >= c.last(o)) {
				cnt++
			}
		}
		if cnt*2 > len(c.nodes) {
			cands = append(cands, n.id)
		}
	}
	if len(cands) == 0 {
		return
	}
	c.leader = cands[c.tp.Choose(len(cands))]
	c.term++
	c.probes.Add("leader_changes", 1)
	c.logf("leader is now n%d term %d", c.leader, c.term)
	// a new leader starts its term with a no-op
	L := c.nodes[c.leader]
	noop := &raft.Log{Index: c.last(L) + 1, Term: c.term, Type: raft.LogNoop}
	if err, injected := c.storeViaF(L, []*raft.Log{noop}); err != nil && !injected {
		c.violate("transparent", "leader-append-failed", "new leader StoreLogs failed: %v", err)
	}
}

// disarmRest: an at-rest mutation whose index is deleted from the node no
// longer describes anything; a new one may be armed later.
func (c *cluster) disarmRest(n *cnode, lo, hi uint64) {
	if n.wrap.restIdx != 0 && ((n.wrap.restIdx >= lo && n.wrap.restIdx <= hi) || (n.wrap.swapA != 0 && n.wrap.swapA+1 >= lo && n.wrap.swapA+1 <= hi)) {
		n.wrap.restIdx, n.wrap.restMut, n.wrap.swapA = 0, nil, 0
		if c.mutated && c.mutKind == "rest" && c.mutNode == n.id && c.mutExpected == 0 {
			c.mutated = false
		}
	}
}

func (c *cluster) restart(n *cnode) {
	c.waitQuiet(n)
	c.useNode(n)
	// Close stops the background verifier of this instance; the inner store lives on
	old := n.ls
	func() {
		defer func() { recover() }()
		old.Close()
	}()
	c.newVerifier(n)
	c.probes.Add("middleware_restarts", 1)
	c.logf("restarted middleware of n%d", n.id)
}

func (c *cluster) headTruncate(n *cnode) {
	if n.mem.last == 0 || n.mem.last-n.mem.first < 2 {
		return
	}
	racy := c.racyHead && len(n.queuedStart) > 0
	if !c.noQuiet && !racy {
		c.waitQuiet(n)
	}
	// only committed entries are ever compacted away
	ci := c.commitIndex()
	if racy {
		// compaction while reports are queued or being verified, kept strictly
		// below every such range: the ranges themselves are not modified, so all
		// judgements stay valid
		lowest := n.queuedStart[0]
		for _, st := range n.queuedStart {
			if st < lowest {
				lowest = st
			}
		}
		if lowest <= n.mem.first+1 {
			return
		}
		if ci > lowest-1 {
			ci = lowest - 1
		}
		c.probes.Add("compaction_below_pending_range", 1)
	}
	if e := n.mem.m[ci]; ci < n.mem.first || e == nil || c.nodes[c.leader].mem.m[ci] == nil || e.Term != c.nodes[c.leader].mem.m[ci].Term {
		return
	}
	span := int(n.mem.last - n.mem.first)
	if int(ci-n.mem.first)+1 < span {
		span = int(ci-n.mem.first) + 1
	}
	if span < 1 {
		return
	}
	k := 1 + uint64(c.tp.Choose(span))
	c.useNode(n)
	boundary := n.mem.m[n.mem.first+k-1]
	c.disarmRest(n, n.mem.first, n.mem.first+k-1)
	if !c.deleteVia(n, n.mem.first, n.mem.first+k-1) {
		return
	}
	if boundary != nil {
		n.snapIdx, n.snapTerm = boundary.Index, boundary.Term
	}
	c.probes.Add("head_truncations", 1)
	c.logf("n%d head-truncated to %d", n.id, n.mem.first)
}

func (c *cluster) armRestMutation() {
	if c.mode != "C17" || c.mutated {
		return
	}
	n := c.nodes[c.tp.Choose(len(c.nodes))]
	if n.mem.last == 0 {
		return
	}
	// an index not yet covered by a checkpoint on this node, so that a later
	// checkpoint's range contains it
	lo := n.mem.first
	for e := range c.cps {
		if e <= n.mem.last && e > lo {
			lo = e
		}
	}
	if lo > n.mem.last {
		return
	}
	idx := lo + uint64(c.tp.Choose(int(n.mem.last-lo+1)))
	e := n.mem.m[idx]
	if e == nil || (e.Index == 1 && e.Type == raft.LogConfiguration) {
		return
	}
	if len(c.cps[idx]) > 0 {
		return
	}
	if c.tp.Choose(6) == 0 {
		// swapped neighbours (both inside the future range, neither a checkpoint)
		e2 := n.mem.m[idx+1]
		if e2 != nil && len(c.cps[idx+1]) == 0 && !sameLogIgnoringIndex(e, e2) {
			n.wrap.swapA = idx
			n.wrap.restIdx = idx
			c.mutated, c.mutKind, c.mutNode, c.mutIdx, c.mutField = true, "rest", n.id, idx, "swap"
			c.fired.Add("mutation_at_rest_swap", 1)
			c.logf("MUTATION at rest: n%d returns entries %d and %d swapped", n.id, idx, idx+1)
			return
		}
	}
	spec := c.chooseMutation(true)
	probe := cloneLog(e)
	field := spec.apply(probe)
	n.wrap.restIdx = idx
	// the alteration is applied to whatever the store returns for that index
	n.wrap.restMut = func(l *raft.Log) { spec.apply(l) }
	c.mutated, c.mutKind, c.mutNode, c.mutIdx, c.mutField = true, "rest", n.id, idx, field
	c.fired.Add("mutation_at_rest_"+field, 1)
	c.logf("MUTATION at rest: n%d returns entry %d (type %d term %d) altered (%s) -> type %d term %d index %d", n.id, idx, e.Type, e.Term, field, probe.Type, probe.Term, probe.Index)
}

func runCluster(prop string, seed uint64, cfg Config, plan Plan, tp *tape.Tape) *RunResult {
	c := &cluster{prop: prop, mode: cfg.Profile, tp: tp, cps: map[uint64][]*cpInfo{}, probes: Counters{}, fired: Counters{}, term: 1}
	c.sim = sched.New(tp)
	c.sim.StickNum, c.sim.StickDen = cfg.StickNum, cfg.StickDen
	c.sim.MaxSteps = 60000
	c.sim.OnHook = func(t *sched.Task, point string) {
		if c.inStore && t != nil && t.Name == "driver" {
			switch point {
			case "verifier.sent":
				c.trig = append(c.trig, 'S')
			case "verifier.dropped":
				c.trig = append(c.trig, 'D')
			}
		}
	}
	c.sim.Go("driver", nil, func() { c.run(cfg) })
	res := c.sim.Wait()
	st := &RunStats{Steps: c.sim.Steps, Contended: c.sim.Contended, Sig: c.sim.Sig, Fired: c.fired, Probes: c.probes, Points: Counters{}, Gens: 1, Ops: 1}
	for k, n := range c.sim.Points {
		st.Points.Add(k, int64(n))
	}
	st.CaseSig = fmt.Sprintf("%x|%v", c.sim.Sig, c.sig)
	st.Nontrivial = c.probes["checkpoints"] > 0
	r := &RunResult{Seed: seed, Viol: c.viol, Stats: st, Config: cfg, Plan: plan, Tape: tp.Rec, Log: c.log}
	switch {
	case res.Panicked != nil:
		r.HarnessErr = fmt.Sprintf("harness panic: %v\n%s", res.Panicked.PanicVal, trimStack(res.Panicked.PanicStack))
	case c.viol != nil || c.aborted:
	case res.Kind == sched.EndDeadlock || res.Kind == sched.EndSteps:
		if c.mode == "C18" {
			r.Viol = &Violation{Property: prop, Oracle: "appends-never-block", Class: "blocked:" + deadlockClass(res.Detail), Message: "no task can make progress (StoreLogs must complete even if the report callback blocks): " + res.Detail}
		} else {
			r.HarnessErr = "cluster run ended with " + res.Kind.String() + ": " + res.Detail
		}
	}
	return r
}

func (c *cluster) run(cfg Config) {
	nn := cfg.Readers
	if nn < 2 {
		nn = 2
	}
	for i := 0; i < nn; i++ {
		n := &cnode{id: i, mem: newMemStore(), gateOpen: true}
		n.wrap = &nodeStore{inner: n.mem, sim: c.sim}
		c.nodes = append(c.nodes, n)
		c.newVerifier(n)
	}
	c.leader = c.tp.Choose(nn)
	// a third of the runs inject errors of the inner store / IsCheckpointFn
	c.errRun = c.tp.Choose(3) == 0
	c.noQuiet = (c.mode == "C18" || c.mode == "C16") && c.tp.Choose(2) == 0
	c.racyHead = !c.noQuiet && c.mode != "C18" && c.tp.Choose(2) == 0
	nchoices := 14
	if c.errRun {
		nchoices = 16
	}
	steps := 10 + c.tp.Choose(40)
	for s := 0; s < steps && !c.stopped(); s++ {
		switch c.tp.Choose(nchoices) {
		case 14, 15:
			c.armFault()
		case 0, 1, 2, 3:
			c.leaderAppend(false)
		case 4, 5, 6, 7, 8:
			c.replicate(c.nodes[c.tp.Choose(nn)])
		case 9:
			c.changeLeader()
		case 10:
			c.restart(c.nodes[c.tp.Choose(nn)])
		case 11:
			if c.mode != "C18" || c.noQuiet {
				c.headTruncate(c.nodes[c.tp.Choose(nn)])
			}
		case 12:
			c.armRestMutation()
			if c.mode == "C18" {
				n := c.nodes[c.tp.Choose(nn)]
				n.gateOpen = !n.gateOpen
				c.logf("gate of n%d open=%v", n.id, n.gateOpen)
				c.sim.Yield("gate-toggled")
			}
		case 13:
			c.transparencyProbe(c.nodes[c.tp.Choose(nn)])
		}
	}
	if c.stopped() {
		return
	}
	// final: no more faults; a checkpoint, full replication, all gates open, quiescence
	for _, n := range c.nodes {
		n.wrap.failStoreIn, n.wrap.failDeleteIn, n.wrap.failVReadIn, n.wrap.failVFirstIn, n.wrap.failDriverIn, n.cpFailIn = 0, 0, 0, 0, 0, 0
	}
	c.leaderAppend(true)
	for round := 0; round < 40 && !c.stopped(); round++ {
		done := true
		for _, n := range c.nodes {
			if n.id != c.leader && n.mem.last < c.nodes[c.leader].mem.last {
				c.replicate(n)
				done = false
			}
		}
		if done {
			break
		}
	}
	for _, n := range c.nodes {
		n.gateOpen = true
	}
	for _, n := range c.nodes {
		c.waitQuiet(n)
	}
	if c.stopped() {
		return
	}
	// accounting (C18 / C20 for the verifier metrics)
	for _, n := range c.nodes {
		sum := n.mc.Summary().Counters
		d := int(sum["dropped_reports"])
		if n.delivered+d != n.triggered {
			c.violate("drop-accounting", "checkpoint-accounting", "node %d: %d checkpoints stored, %d reports delivered + %d counted drops", n.id, n.triggered, n.delivered, d)
			return
		}
		if int(sum["checkpoints_written"]) != n.triggered {
			c.violate("drop-accounting", "checkpoints-written-metric", "node %d: checkpoints_written=%d, %d checkpoints were stored", n.id, sum["checkpoints_written"], n.triggered)
			return
		}
		// ranges_verified is incremented after reportFn returns: give the verifier its turn
		c.sim.Quiesce("quiesce-accounting")
		sum = n.mc.Summary().Counters
		if int(sum["read_checksum_failures"]+sum["write_checksum_failures"]) != n.mismatches {
			c.violate("drop-accounting", "checksum-failure-metrics", "node %d: read+write_checksum_failures=%d, %d reports carried ErrChecksumMismatch", n.id, sum["read_checksum_failures"]+sum["write_checksum_failures"], n.mismatches)
			return
		}
		if int(sum["ranges_verified"]) != n.delivered {
			c.violate("drop-accounting", "ranges-verified-metric", "node %d: ranges_verified=%d, %d reports were delivered", n.id, sum["ranges_verified"], n.delivered)
			return
		}
	}
	if c.mode == "C17" && c.mutated {
		c.probes.Add("mutation_runs", 1)
		if c.mutExpected > 0 {
			c.probes.Add("mutation_reached_a_verified_range", 1)
		}
	}
	c.sig = append(c.sig, fmt.Sprintf("nodes=%d lc=%d", nn, c.probes["leader_changes"]))
}

// armFault arms one error fault on one node: the k-th matching call from now
// fails before it reaches the inner store.
func (c *cluster) armFault() {
	n := c.nodes[c.tp.Choose(len(c.nodes))]
	k := 1 + c.tp.Choose(3)
	var what string
	switch c.tp.Choose(6) {
	case 0:
		n.wrap.failStoreIn, what = k, "StoreLogs"
	case 1:
		n.wrap.failDeleteIn, what = 1, "DeleteRange"
	case 2:
		n.wrap.failVReadIn, what = k, "verifier-GetLog"
	case 3:
		n.wrap.failVFirstIn, what = 1, "verifier-FirstIndex"
	case 4:
		n.cpFailIn, what = k, "IsCheckpointFn"
	case 5:
		n.wrap.failDriverIn, what = k, "driver-read"
	}
	c.logf("fault armed on n%d: %s call #%d from now fails", n.id, what, k)
}

// transparencyProbe compares the middleware's answers with the inner store's.
func (c *cluster) transparencyProbe(n *cnode) {
	c.useNode(n)
	fd := n.wrap.firedDriver
	f1, e1 := n.ls.FirstIndex()
	l1, e2 := n.ls.LastIndex()
	if n.wrap.firedDriver > fd {
		// the inner store failed one of the two calls: exactly that error must come back
		c.fired.Add("inner_error_driver_read", 1)
		if !(errors.Is(e1, errInjected) && e2 == nil && l1 == n.mem.last) && !(e1 == nil && f1 == n.mem.first && errors.Is(e2, errInjected)) {
			c.violate("transparent", "inner-read-error-not-returned", "node %d: the inner store failed FirstIndex or LastIndex; the middleware returned (%d,%v) (%d,%v)", n.id, f1, e1, l1, e2)
		}
		return
	}
	if e1 != nil || e2 != nil || f1 != n.mem.first || l1 != n.mem.last {
		c.violate("transparent", "index-differs", "node %d: middleware First/Last %d/%d (%v,%v), inner store %d/%d", n.id, f1, l1, e1, e2, n.mem.first, n.mem.last)
		return
	}
	if n.mem.last != 0 {
		i := n.mem.first + uint64(c.tp.Choose(int(n.mem.last-n.mem.first+1)))
		var l raft.Log
		fd = n.wrap.firedDriver
		err := n.ls.GetLog(i, &l)
		if n.wrap.firedDriver > fd {
			c.fired.Add("inner_error_driver_read", 1)
			if !errors.Is(err, errInjected) {
				c.violate("transparent", "inner-read-error-not-returned", "node %d: the inner store failed GetLog(%d); the middleware returned %v", n.id, i, err)
			}
			return
		}
		want := n.mem.m[i]
		swapped := n.wrap.swapA != 0 && (i == n.wrap.swapA || i == n.wrap.swapA+1)
		if n.wrap.restIdx != i && !swapped && (err != nil || !sameLog(want, &l)) {
			c.violate("transparent", "getlog-differs", "node %d: GetLog(%d) through the middleware differs from the inner store (%v)", n.id, i, err)
			return
		}
	}
	var l raft.Log
	fd = n.wrap.firedDriver
	if err := n.ls.GetLog(n.mem.last+5, &l); n.wrap.firedDriver > fd {
		if !errors.Is(err, errInjected) {
			c.violate("transparent", "inner-read-error-not-returned", "node %d: the inner store failed GetLog; the middleware returned %v", n.id, err)
		}
		return
	} else if !errors.Is(err, raft.ErrLogNotFound) {
		c.violate("transparent", "getlog-notfound-differs", "node %d: GetLog beyond the end returned %v", n.id, err)
		return
	}
	// a checkpoint whose Extensions hold foreign data must be refused and store nothing
	if n.id == c.leader && c.tp.Choose(3) == 0 {
		bad := c.newEntry(n.mem.last+1, true)
		bad.Extensions = []byte("foreign-extension-data")
		lastBefore := n.mem.last
		err := n.ls.StoreLogs([]*raft.Log{bad})
		if errors.Is(err, errInjected) {
			return // IsCheckpointFn fault fired first: says nothing about the refusal
		}
		if err == nil || n.mem.last != lastBefore {
			c.violate("transparent", "foreign-extensions-accepted", "a checkpoint with foreign Extensions was accepted (err=%v, last %d -> %d)", err, lastBefore, n.mem.last)
			return
		}
		c.probes.Add("foreign_extensions_refused", 1)
	}
	c.probes.Add("transparency_probes", 1)
}
