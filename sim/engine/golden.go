package engine

import (
	"encoding/base64"
	"encoding/json"
	"fmt"
	"os"
	"os/exec"
	"path/filepath"
	"sort"
	"time"

	"github.com/hashicorp/raft"
	wal "github.com/hashicorp/raft-wal"
)

// Golden directories (/verif/golden/*) were written once by the PINNED tree
// through production wal.Open (generator kept as golden/goldgen.go.txt). The
// current tree must open a scratch copy of each with production defaults (real
// fs/, metadb/, bbolt) and return identical contents. They are fixed regression
// inputs, not a search.

type goldenEntry struct {
	Index, Term uint64
	Type        uint8
	Data, Ext   string
	At          string
}
type goldenContents struct {
	SegSize      int
	First, Last  uint64
	Entries      []goldenEntry
	Stable       map[string]string
	StableUint64 map[string]uint64
	Note         string
}

// GoldenCheckOne verifies one golden directory; "" means it matches.
func GoldenCheckOne(dir string) string {
	b, err := os.ReadFile(filepath.Join(dir, "contents.json"))
	if err != nil {
		return "contents.json: " + err.Error()
	}
	var c goldenContents
	if err := json.Unmarshal(b, &c); err != nil {
		return "contents.json: " + err.Error()
	}
	scratch, err := os.MkdirTemp(shmDir(), "walsim-golden-")
	if err != nil {
		return err.Error()
	}
	defer os.RemoveAll(scratch)
	if out, err := exec.Command("cp", "-a", dir+"/.", scratch).CombinedOutput(); err != nil {
		return fmt.Sprintf("copy: %v %s", err, out)
	}
	os.Remove(filepath.Join(scratch, "contents.json"))
	w, err := wal.Open(scratch, wal.WithSegmentSize(c.SegSize))
	if err != nil {
		return "Open: " + err.Error()
	}
	defer w.Close()
	first, _ := w.FirstIndex()
	last, _ := w.LastIndex()
	if first != c.First || last != c.Last {
		return fmt.Sprintf("FirstIndex/LastIndex %d/%d, the pinned version wrote %d/%d", first, last, c.First, c.Last)
	}
	for _, e := range c.Entries {
		var l raft.Log
		if err := w.GetLog(e.Index, &l); err != nil {
			return fmt.Sprintf("GetLog(%d): %v", e.Index, err)
		}
		d, _ := base64.StdEncoding.DecodeString(e.Data)
		x, _ := base64.StdEncoding.DecodeString(e.Ext)
		at := ""
		if !l.AppendedAt.IsZero() {
			at = l.AppendedAt.UTC().Format(time.RFC3339Nano)
		}
		if l.Index != e.Index || l.Term != e.Term || uint8(l.Type) != e.Type || string(l.Data) != string(d) || string(l.Extensions) != string(x) || at != e.At {
			return fmt.Sprintf("entry %d differs from what the pinned version stored", e.Index)
		}
	}
	var l raft.Log
	if c.Last != 0 {
		if err := w.GetLog(c.Last+1, &l); err == nil {
			return fmt.Sprintf("GetLog(%d) beyond the golden log succeeded", c.Last+1)
		}
	}
	for k, v := range c.Stable {
		got, err := w.Get([]byte(k))
		want, _ := base64.StdEncoding.DecodeString(v)
		if err != nil || string(got) != string(want) {
			return fmt.Sprintf("stable key %q differs (%v)", k, err)
		}
	}
	for k, v := range c.StableUint64 {
		got, err := w.GetUint64([]byte(k))
		if err != nil || got != v {
			return fmt.Sprintf("stable uint64 key %q = %d, want %d (%v)", k, got, v, err)
		}
	}
	// still writable in place
	next := c.Last + 1
	if c.Last == 0 {
		next = 1
	}
	if err := w.StoreLog(&raft.Log{Index: next, Data: []byte("after-upgrade")}); err != nil {
		return "append to a directory written by the pinned version failed: " + err.Error()
	}
	return ""
}

// GoldenCheckAll verifies every golden directory under root/golden.
func GoldenCheckAll(root string) (bad map[string]string, n int) {
	bad = map[string]string{}
	ents, _ := os.ReadDir(filepath.Join(root, "golden"))
	var names []string
	for _, e := range ents {
		if e.IsDir() {
			names = append(names, e.Name())
		}
	}
	sort.Strings(names)
	for _, name := range names {
		n++
		if d := GoldenCheckOne(filepath.Join(root, "golden", name)); d != "" {
			bad[name] = d
		}
	}
	return bad, n
}
