package engine

import (
	"encoding/binary"
	"errors"
	"fmt"
	"hash/fnv"
	"time"

	"github.com/anishathalye/porcupine"
	"github.com/hashicorp/raft"
	wal "github.com/hashicorp/raft-wal"
	"verif/sim/model"
)

// histOp is one completed operation of a client, stamped with the simulator's
// global event sequence numbers (not time).
type histOp struct {
	Client int
	Kind   string // get first last | append delete
	Idx    uint64
	Call   int
	Ret    int
	// results
	Found  bool
	Log    *raft.Log
	Sum    uint64 // checksum of Log taken at return (aliasing detection)
	ErrStr string // error other than not-found
	Val    uint64 // first / last
	Ver    int    // writer ops: version produced
}

// version is a state of the log as published by the single writer, with the
// window in which a reader may observe it.
type version struct {
	st    *model.State
	from  int // earliest event at which it may be visible (append: fsync returned)
	until int // latest event at which it may still be visible (return of the next writer op)
}

type concState struct {
	clock      int
	syncStep   int
	versions   []version
	hist       []histOp
	writerDone bool
	readersUp  int
	readersEnd int
}

func (ex *Exec) tick() int {
	ex.conc.clock++
	return ex.conc.clock
}

func logSum(l *raft.Log) uint64 {
	h := fnv.New64a()
	var b [8]byte
	put := func(v uint64) {
		for i := 0; i < 8; i++ {
			b[i] = byte(v >> (8 * uint(i)))
		}
		h.Write(b[:])
	}
	put(l.Index)
	put(l.Term)
	put(uint64(l.Type))
	h.Write(l.Data)
	put(uint64(len(l.Extensions)))
	h.Write(l.Extensions)
	put(uint64(l.AppendedAt.UnixNano()))
	return h.Sum64()
}

// writerRecord is called by doAppend/doDelete around the API call.
func (ex *Exec) writerBegin() int {
	if ex.conc == nil {
		return 0
	}
	ex.conc.syncStep = 0
	return ex.tick()
}

func (ex *Exec) writerEnd(kind string, call int, acked bool) {
	if ex.conc == nil {
		return
	}
	ret := ex.tick()
	if !acked {
		return
	}
	st := ex.or.Definite()
	if st == nil {
		return
	}
	from := call
	if kind == "append" && ex.conc.syncStep > 0 {
		from = ex.conc.syncStep
	}
	c := ex.conc
	c.versions[len(c.versions)-1].until = ret
	c.versions = append(c.versions, version{st: st.Clone(), from: from, until: 1 << 60})
	c.hist = append(c.hist, histOp{Client: 0, Kind: kind, Call: from, Ret: ret, Ver: len(c.versions) - 1})
}

// readerTask issues reads until the writer is done (or its budget is used).
func (ex *Exec) readerTask(id int, budget int) {
	c := ex.conc
	defer func() { c.readersEnd++ }()
	var reuseL raft.Log
	for n := 0; n < budget && !ex.stop(); n++ {
		if c.writerDone && n >= 2 {
			break
		}
		cur := c.versions[len(c.versions)-1].st
		kind := []string{"get", "get", "get", "first", "last"}[ex.tape.Choose(5)]
		op := histOp{Client: id, Kind: kind}
		w := ex.w
		switch kind {
		case "first":
			op.Call = ex.tick()
			var err error
			ex.callR(func() error { op.Val, err = w.FirstIndex(); return err })
			if err != nil {
				op.ErrStr = err.Error()
			}
		case "last":
			op.Call = ex.tick()
			var err error
			ex.callR(func() error { op.Val, err = w.LastIndex(); return err })
			if err != nil {
				op.ErrStr = err.Error()
			}
		default:
			var idx uint64
			if cur.Empty() {
				idx = uint64(1 + ex.tape.Choose(8))
				if len(c.versions) > 1 {
					// an index of an earlier, now removed, generation
					p := c.versions[len(c.versions)-2].st
					if !p.Empty() {
						idx = p.First + uint64(ex.tape.Choose(int(p.Last-p.First+1)))
					}
				}
			} else {
				n := int(cur.Last - cur.First + 1)
				switch ex.tape.Choose(6) {
				case 0:
					idx = cur.First
				case 1:
					idx = cur.Last
				case 2:
					idx = cur.Last + 1
				case 3:
					if cur.First > 1 {
						idx = cur.First - 1
					} else {
						idx = cur.Last + 2
					}
				default:
					idx = cur.First + uint64(ex.tape.Choose(n))
				}
			}
			op.Idx = idx
			var l raft.Log
			op.Call = ex.tick()
			err := ex.callR(func() error {
				if id%2 == 1 { // odd readers decode into one re-used destination and keep shallow copies (seeded C12i)
					e := w.GetLog(idx, &reuseL)
					l = reuseL
					return e
				}
				return w.GetLog(idx, &l)
			})
			switch {
			case err == nil:
				op.Found = true
				op.Log = &l
				op.Sum = logSum(&l)
			case errors.Is(err, raft.ErrLogNotFound):
			default:
				op.ErrStr = err.Error()
			}
		}
		op.Ret = ex.tick()
		c.hist = append(c.hist, op)
		ex.stats.Ops++
	}
}

// callR is the readers' API-call wrapper (panic -> violation; releases modelled locks).
func (ex *Exec) callR(fn func() error) (err error) {
	defer ex.sim.OpEnd()
	defer ex.g.flushDeletes()
	defer func() {
		if r := recover(); r != nil {
			if es, ok := r.(endlessScan); ok {
				ex.violate("never-blocks-forever", "endless-scan:concurrent-call", "a call never returned: more than %d storage calls in one API call (last: %s %s)", es.calls, es.kind, es.file)
				err = fmt.Errorf("endless scan")
				return
			}
			st := stackOf()
			ex.violate("no-panic", "panic:"+panicClass(fmt.Sprint(r), st), "concurrent call panicked: %v\n%s", r, trimStack(st))
			err = fmt.Errorf("panic: %v", r)
		}
	}()
	ex.g.callSeams = 0
	return fn()
}

// runConcurrent is the C06 flow: the plan is executed by the single writer
// while reader tasks issue reads; the history is checked afterwards.
func (ex *Exec) runConcurrent() {
	c := ex.conc
	st := ex.or.Definite()
	if st == nil {
		ex.violate("harness", "ambiguous-initial-state", "initial state ambiguous")
		return
	}
	c.versions = []version{{st: st.Clone(), from: 0, until: 1 << 60}}
	nr := ex.cfg.Readers
	for i := 1; i <= nr; i++ {
		id := i
		c.readersUp++
		ex.sim.Go(fmt.Sprintf("reader%d", id), nil, func() { ex.readerTask(id, 10+ex.tape.Choose(12)) })
	}
	var stableDeferred []func()
	if ex.cfg.StableTask {
		// one or two stable-store clients, each with keys of its own (so each
		// knows what its Gets must return) but running against one another as well
		// as against the writer: two Sets / SetUint64s may be in flight at once
		nclients := 1 + ex.tape.Choose(2)
		for t := 0; t < nclients; t++ {
			t := t
			keys := [2]string{fmt.Sprintf("ck%d", 2*t), fmt.Sprintf("ck%d", 2*t+1)}
			initial := [2]string{st.Stable[keys[0]], st.Stable[keys[1]]}
			c.readersUp++
			ex.sim.Go(fmt.Sprintf("stable%d", t), nil, func() {
				defer func() { c.readersEnd++ }()
				ex.concStable(6+ex.tape.Choose(14), keys, initial, &stableDeferred)
			})
		}
	}
	for ex.pc < len(ex.plan.Ops) && !ex.stop() {
		i := ex.pc
		ex.pc++
		ex.curOp = i
		// error faults (never crashes) may be attached to the writer's operations
		if f := ex.plan.Ops[i].Fault; f != nil && f.Class == "err" {
			ex.openWindow(f)
		} else {
			ex.openWindow(nil)
		}
		ex.doOp(ex.plan.Ops[i])
		ex.stats.Ops++
	}
	ex.openWindow(nil)
	c.writerDone = true
	ex.sim.WaitUntil("wait-readers", func() bool { return c.readersEnd == c.readersUp })
	if ex.stop() {
		return
	}
	for _, f := range stableDeferred {
		f()
	}
	ex.checkHistory()
	if ex.stop() {
		return
	}
	// C13: once the in-flight reads have finished the files of every segment
	// that a truncation removed are gone and their handles closed
	ex.sim.Quiesce("quiesce-after-readers")
	ex.dirOracle("after-readers")
}

// concStable is the stable-store client of the concurrent flow (C08's
// "concurrent" half): Set / SetUint64 / Get / GetUint64 on two keys nobody
// else writes, interleaved by the scheduler with the writer's appends,
// rotations and truncations and with the readers. Expected value = this task's
// latest acknowledged Set, else what the store held at the start. The
// candidate-set oracle is updated by the main task after the join.
func (ex *Exec) concStable(n int, keys [2]string, initial [2]string, deferred *[]func()) {
	expect := initial
	for i := 0; i < n && !ex.stop(); i++ {
		ki := ex.tape.Choose(2)
		key := keys[ki]
		switch ex.tape.Choose(4) {
		case 0, 1:
			val := fmt.Sprintf("v%d", ex.nextID)
			how := ex.tape.Choose(4)
			if how == 0 {
				val = "" // Set(k, empty)
			}
			ex.nextID++
			var err error
			if how == 1 || how == 2 {
				// SetUint64: the value goes through the WAL's own 8-byte encoding
				u := ex.nextID*0x9e3779b97f4a7c15 + uint64(i)
				var b [8]byte
				binary.LittleEndian.PutUint64(b[:], u)
				val = string(b[:])
				err = ex.callR(func() error { return ex.w.SetUint64([]byte(key), u) })
				ex.probes.Add("concurrent_stable_setuint64", 1)
			} else {
				err = ex.callR(func() error { return ex.w.Set([]byte(key), []byte(val)) })
			}
			if ex.stop() {
				return
			}
			if err != nil {
				ex.violate("stable-map", "stable-set-error:"+errClass(err), "Set(%q) beside a running writer returned %v", key, err)
				return
			}
			expect[ki] = val
			v := val
			mop := model.Op{Kind: model.OpSet, Key: key, Val: &v}
			*deferred = append(*deferred, func() { ex.or.Acked(mop) })
			ex.probes.Add("concurrent_stable_sets", 1)
		default:
			var got []byte
			var err error
			ex.callR(func() error { got, err = ex.w.Get([]byte(key)); return err })
			if ex.stop() {
				return
			}
			if err != nil {
				ex.violate("stable-get", "stable-get-error:"+errClass(err), "Get(%q) beside a running writer returned %v", key, err)
				return
			}
			if string(got) != expect[ki] {
				ex.violate("stable-map", "stable-wrong-value", "Get(%q) beside a running writer returned %q, latest acknowledged Set wrote %q", key, got, expect[ki])
				return
			}
			ex.probes.Add("concurrent_stable_gets", 1)
		}
		ex.stats.Ops++
	}
}

// checkHistory evaluates (1) the direct interval oracle with precise
// diagnostics, (2) retained-result stability and (3) porcupine over the whole
// history.
func (ex *Exec) checkHistory() {
	c := ex.conc
	overlap := 0
	for _, op := range c.hist {
		if op.Client == 0 {
			continue
		}
		var vs []int
		for k, v := range c.versions {
			if v.from <= op.Ret && v.until >= op.Call {
				vs = append(vs, k)
			}
		}
		if len(vs) > 1 {
			overlap++
		}
		if op.Kind == "get" && op.Found && logSum(op.Log) != op.Sum {
			ex.violate("no-aliasing", "retained-read-changed", "the log returned by GetLog(%d) to reader %d changed after it was returned", op.Idx, op.Client)
			return
		}
		ok := false
		why := ""
		switch op.Kind {
		case "first", "last":
			if op.ErrStr != "" {
				why = "error " + op.ErrStr
				break
			}
			for _, k := range vs {
				s := c.versions[k].st
				want := s.First
				if op.Kind == "last" {
					want = s.Last
				}
				if want == op.Val {
					ok = true
				}
			}
			if !ok {
				why = fmt.Sprintf("returned %d, which no log state current during the call had", op.Val)
			}
		case "get":
			inAll, sameEntry := true, true
			var e0 *model.Entry
			removedDuring := false
			for j, k := range vs {
				s := c.versions[k].st
				e := s.Ent[op.Idx]
				in := !s.Empty() && op.Idx >= s.First && op.Idx <= s.Last
				if !in {
					inAll = false
					if j > 0 {
						ps := c.versions[vs[j-1]].st
						if !ps.Empty() && op.Idx >= ps.First && op.Idx <= ps.Last {
							removedDuring = true
						}
					}
				} else {
					if e0 == nil {
						e0 = e
					} else if e0.ID != e.ID {
						sameEntry = false
					}
				}
				switch {
				case op.Found && in && model.DiffLog(e.Log(), op.Log) == "":
					ok = true
				case !op.Found && op.ErrStr == "" && !in:
					ok = true
				}
			}
			if op.ErrStr != "" {
				if removedDuring {
					ok = true
					ex.probes.Add("read_error_on_index_removed_during_read", 1)
				} else {
					why = fmt.Sprintf("returned error %q for an index no truncation removed during the read", op.ErrStr)
				}
			}
			if !ok && why == "" {
				if op.Found {
					why = fmt.Sprintf("returned an entry (id %x) that no log state current during the call held at that index", model.IDOf(op.Log))
				} else {
					why = "returned not-found although every log state current during the call held that index"
				}
			}
			if inAll && sameEntry && !op.Found {
				ok = false
				if op.ErrStr != "" {
					why = fmt.Sprintf("an entry that stayed in the log throughout the read was not returned: %s", op.ErrStr)
				}
			}
		}
		if op.Kind == "get" && op.Found && ex.failedIDs[model.IDOf(op.Log)] {
			// C10: entries of a failed StoreLogs are not visible to readers in the
			// running process - not even while the call is rolling back
			ex.violate("failed-append-invisible", "reader-saw-failed-append", "reader %d GetLog(%d) [events %d..%d] returned an entry (id %x) of a StoreLogs call that failed", op.Client, op.Idx, op.Call, op.Ret, model.IDOf(op.Log))
			if ex.stop() {
				return
			}
		}
		if !ok && op.Kind == "get" && op.Found {
			// C12: was the returned log ever stored at that index, in any state of the
			// whole history? If not, this is not a question of timing: the read was
			// assembled from bytes that are not this entry's (a recycled buffer)
			ever := false
			for k := range c.versions {
				s := c.versions[k].st
				if e := s.Ent[op.Idx]; e != nil && !s.Empty() && op.Idx >= s.First && op.Idx <= s.Last && model.DiffLog(e.Log(), op.Log) == "" {
					ever = true
					break
				}
			}
			if !ever {
				ex.violate("no-aliasing", "concurrent-read-never-stored", "reader %d GetLog(%d) [events %d..%d] returned a log (index %d, id %x) that was never stored at that index in any state of the history", op.Client, op.Idx, op.Call, op.Ret, op.Log.Index, model.IDOf(op.Log))
				if ex.stop() {
					return
				}
			}
		}
		if !ok {
			cls := "stale-or-future-" + op.Kind
			if op.ErrStr != "" {
				cls = "read-error:" + errClassStr(op.ErrStr)
			}
			ex.violate("reads-linearizable", cls, "reader %d %s(%d) [events %d..%d]: %s; candidate versions %v", op.Client, op.Kind, op.Idx, op.Call, op.Ret, why, vs)
			return
		}
	}
	ex.probes.Add("reads_overlapping_a_write", int64(overlap))
	ex.probes.Add("history_ops", int64(len(c.hist)))
	ex.sigParts = append(ex.sigParts, fmt.Sprintf("sched:%x", ex.sim.Sig))
	if !ex.on("porcupine") {
		return
	}
	ex.porcupine()
}

func errClassStr(s string) string { return errClass(errors.New(s)) }

type pcInput struct {
	Kind string
	Idx  uint64
	Ver  int
}
type pcOutput struct {
	Found bool
	ID    uint64
	Sum   uint64
	Val   uint64
}

func (ex *Exec) porcupine() {
	c := ex.conc
	vers := c.versions
	wantSum := func(e *model.Entry) uint64 { return logSum(e.Log()) }
	m := porcupine.Model{
		Init: func() interface{} { return 0 },
		Step: func(state, input, output interface{}) (bool, interface{}) {
			k := state.(int)
			in := input.(pcInput)
			out := output.(pcOutput)
			switch in.Kind {
			case "append", "delete":
				return in.Ver == k+1, in.Ver
			case "first":
				return vers[k].st.First == out.Val, k
			case "last":
				return vers[k].st.Last == out.Val, k
			case "get":
				s := vers[k].st
				inRange := !s.Empty() && in.Idx >= s.First && in.Idx <= s.Last
				if !out.Found {
					return !inRange, k
				}
				return inRange && wantSum(s.Ent[in.Idx]) == out.Sum, k
			}
			return false, k
		},
		Equal: func(a, b interface{}) bool { return a.(int) == b.(int) },
	}
	var ops []porcupine.Operation
	for _, op := range c.hist {
		if op.ErrStr != "" {
			continue // judged by the direct oracle
		}
		in := pcInput{Kind: op.Kind, Idx: op.Idx, Ver: op.Ver}
		out := pcOutput{Found: op.Found, Val: op.Val}
		if op.Found {
			out.Sum = logSum(op.Log)
		}
		ops = append(ops, porcupine.Operation{ClientId: op.Client, Input: in, Call: int64(op.Call), Output: out, Return: int64(op.Ret)})
	}
	res := porcupine.CheckOperationsTimeout(m, ops, 30*time.Second)
	switch res {
	case porcupine.Ok:
		ex.probes.Add("porcupine_ok", 1)
	case porcupine.Unknown:
		ex.probes.Add("porcupine_unknown", 1)
	case porcupine.Illegal:
		ex.violate("porcupine", "history-not-linearizable", "porcupine: history of %d operations is not linearizable against the log model", len(ops))
	}
}

var _ = wal.ErrClosed

// ---------------------------------------------------------------- C14: Close races

type closeState struct {
	everAt     everAtList // the (unique) entry ever submitted at an index
	ackedMax   uint64     // highest index acknowledged so far
	issuedMax  uint64     // highest index submitted so far
	delIssued  uint64     // highest index covered by an issued head truncation
	first0     uint64
	tasksUp    int
	tasksEnd   int
	closeRet   bool
	closedSeen int
	// oracle updates of the racing tasks, applied by the main task in this order
	// once the racers are done (the racing tasks never touch the candidate-set
	// oracle themselves: it lives in Go maps and is shared with nobody while the
	// race is on)
	deferred    []func()
	delMaxAcked uint64 // highest index removed by an acknowledged head truncation
}

func isClosedErr(err error) bool { return errors.Is(err, wal.ErrClosed) }

// raceErr judges the error of a call racing with Close.
func (ex *Exec) raceErr(what string, err error) bool {
	if err == nil {
		return true
	}
	if isClosedErr(err) {
		ex.cl.closedSeen++
		return false
	}
	ex.violate("racing-call-result", "racing-call-error:"+what+":"+errClass(err), "%s racing with Close returned %v: neither a normal result nor ErrClosed", what, err)
	return false
}

func (ex *Exec) clAppender(n int) {
	cl := ex.cl
	defer func() { cl.tasksEnd++ }()
	for i := 0; i < n && !ex.stop(); i++ {
		bn := 1 + ex.tape.Choose(3)
		var es []*model.Entry
		var logs []*raft.Log
		start := cl.issuedMax + 1
		for j := 0; j < bn; j++ {
			e := ex.newEntry(start+uint64(j), []int{8, 16, 40, 100}[ex.tape.Choose(4)], 0)
			es = append(es, e)
			logs = append(logs, e.Log())
		}
		for _, e := range es {
			cl.everAt.set(e.Index, e)
		}
		cl.issuedMax = es[len(es)-1].Index
		err := ex.callR(func() error { return ex.w.StoreLogs(logs) })
		ex.stats.Ops++
		if ex.stop() {
			return
		}
		if err == nil {
			cl.ackedMax = es[len(es)-1].Index
			mop := model.Op{Kind: model.OpAppend, Entries: es}
			cl.deferred = append(cl.deferred, func() {
				for _, e := range mop.Entries {
					ex.protected[e.Index] = e
				}
				ex.or.Acked(mop)
			})
			continue
		}
		if isClosedErr(err) {
			cl.closedSeen++
			// not stored (the call says so); but the batch may be in flight on disk
			mop := model.Op{Kind: model.OpAppend, Entries: es}
			cl.deferred = append(cl.deferred, func() { ex.or.InFlight(mop) })
			return
		}
		ex.violate("racing-call-result", "racing-call-error:StoreLogs:"+errClass(err), "StoreLogs racing with Close returned %v: neither success nor ErrClosed", err)
		return
	}
}

func (ex *Exec) clReader(n int) {
	cl := ex.cl
	defer func() { cl.tasksEnd++ }()
	for i := 0; i < n && !ex.stop(); i++ {
		switch ex.tape.Choose(4) {
		case 0:
			ackedAtCall := cl.ackedMax
			var v uint64
			var err error
			ex.callR(func() error { v, err = ex.w.LastIndex(); return err })
			if ex.stop() || !ex.raceErr("LastIndex", err) {
				if err != nil {
					return
				}
				continue
			}
			if v < ackedAtCall || v > cl.issuedMax {
				ex.violate("racing-call-result", "racing-wrong-lastindex", "LastIndex racing with Close returned %d; acknowledged before the call: %d, submitted: %d", v, ackedAtCall, cl.issuedMax)
				return
			}
		case 1:
			var v uint64
			var err error
			delAckedAtCall := cl.delMaxAcked
			ex.callR(func() error { v, err = ex.w.FirstIndex(); return err })
			if ex.stop() || !ex.raceErr("FirstIndex", err) {
				if err != nil {
					return
				}
				continue
			}
			if v < delAckedAtCall+1 && delAckedAtCall != 0 || v < cl.first0 || v > maxu(cl.first0, cl.delIssued+1) {
				ex.violate("racing-call-result", "racing-wrong-firstindex", "FirstIndex racing with Close returned %d; initial first index %d, head truncation acknowledged up to %d before the call, issued up to %d", v, cl.first0, delAckedAtCall, cl.delIssued)
				return
			}
		default:
			idx := cl.first0 + uint64(ex.tape.Choose(int(cl.issuedMax-cl.first0+2)))
			ackedAtCall := cl.ackedMax
			var l raft.Log
			err := ex.callR(func() error { return ex.w.GetLog(idx, &l) })
			if ex.stop() {
				return
			}
			if errors.Is(err, raft.ErrLogNotFound) {
				if idx >= cl.first0 && idx <= ackedAtCall && idx > cl.delIssued {
					ex.violate("racing-call-result", "racing-notfound-for-acked", "GetLog(%d) racing with Close returned not-found; entries up to %d were acknowledged before the call", idx, ackedAtCall)
					return
				}
				continue
			}
			if err != nil && !isClosedErr(err) && idx <= cl.delIssued {
				// a read may fail for an index that a truncation removes during it
				continue
			}
			if !ex.raceErr("GetLog", err) {
				if err != nil {
					return
				}
				continue
			}
			e := cl.everAt.get(idx)
			if e == nil {
				ex.violate("racing-call-result", "racing-wrong-data", "GetLog(%d) returned an entry for an index never submitted", idx)
				return
			}
			if d := model.DiffLog(e.Log(), &l); d != "" {
				ex.violate("racing-call-result", "racing-wrong-data", "GetLog(%d) racing with Close returned wrong data: %s", idx, d)
				return
			}
		}
		ex.stats.Ops++
	}
}

// clDeleter issues head truncations racing with Close. They stay inside the
// entries present when the race began and leave the last of those in place, so
// they commute with the appender's batches.
func (ex *Exec) clDeleter(n int, limit uint64) {
	cl := ex.cl
	defer func() { cl.tasksEnd++ }()
	for i := 0; i < n && !ex.stop(); i++ {
		lo := maxu(cl.first0, cl.delIssued+1)
		if lo > limit {
			return
		}
		hi := lo + uint64(ex.tape.Choose(int(minu(limit-lo, 6))+1))
		cl.delIssued = hi
		mop := model.Op{Kind: model.OpDelete, Min: cl.first0, Max: hi}
		cl.deferred = append(cl.deferred, func() {
			// an entry stops being protected the moment a DeleteRange covering it is issued
			for idx := range ex.protected {
				if idx <= hi {
					delete(ex.protected, idx)
				}
			}
		})
		err := ex.callR(func() error { return ex.w.DeleteRange(cl.first0, hi) })
		ex.stats.Ops++
		if ex.stop() {
			return
		}
		if err == nil {
			cl.delMaxAcked = hi
			cl.deferred = append(cl.deferred, func() { ex.or.Acked(mop) })
			continue
		}
		if isClosedErr(err) {
			cl.closedSeen++
			cl.deferred = append(cl.deferred, func() { ex.or.InFlight(mop) })
			return
		}
		ex.violate("racing-call-result", "racing-call-error:DeleteRange:"+errClass(err), "DeleteRange racing with Close returned %v: neither success nor ErrClosed", err)
		return
	}
}

func minu(a, b uint64) uint64 {
	if a < b {
		return a
	}
	return b
}

func (ex *Exec) clStable(n int, initial [2]string) {
	cl := ex.cl
	defer func() { cl.tasksEnd++ }()
	// only this task writes ck0 / ck1 during the race: the expected value is its
	// own latest acknowledged Set, else what the store held when the race began
	expect := initial
	for i := 0; i < n && !ex.stop(); i++ {
		ki := ex.tape.Choose(2)
		key := fmt.Sprintf("ck%d", ki)
		if ex.tape.Choose(2) == 0 {
			val := fmt.Sprintf("v%d", ex.nextID)
			ex.nextID++
			err := ex.callR(func() error { return ex.w.Set([]byte(key), []byte(val)) })
			if ex.stop() {
				return
			}
			mop := model.Op{Kind: model.OpSet, Key: key, Val: &val}
			if err == nil {
				expect[ki] = val
				cl.deferred = append(cl.deferred, func() { ex.or.Acked(mop) })
			} else if isClosedErr(err) {
				cl.closedSeen++
				return
			} else {
				// the closed check may pass and the meta store be closed underneath:
				// the property allows only ErrClosed or success
				cl.deferred = append(cl.deferred, func() { ex.or.InFlight(mop) })
				ex.raceErr("Set", err)
				return
			}
		} else {
			var got []byte
			var err error
			ex.callR(func() error { got, err = ex.w.Get([]byte(key)); return err })
			if ex.stop() {
				return
			}
			if err != nil {
				if !ex.raceErr("Get", err) {
					return
				}
			}
			if err == nil && expect[ki] != string(got) {
				ex.violate("racing-call-result", "racing-wrong-stable", "Get(%q) racing with Close returned %q, want %q", key, got, expect[ki])
				return
			}
		}
		ex.stats.Ops++
	}
}

// runCloseRace is the C14 flow.
func (ex *Exec) runCloseRace() {
	cl := ex.cl
	cl.everAt = nil
	// seed
	for ex.pc < len(ex.plan.Ops) && !ex.stop() {
		i := ex.pc
		ex.pc++
		ex.curOp = i
		ex.openWindow(nil)
		ex.doOp(ex.plan.Ops[i])
	}
	if ex.stop() {
		return
	}
	st := ex.or.Definite()
	if st == nil || st.Empty() {
		return
	}
	for i, e := range st.Ent {
		cl.everAt.set(i, e)
	}
	cl.first0, cl.ackedMax, cl.issuedMax = st.First, st.Last, st.Last
	g := ex.g
	w := ex.w
	dir := ex.lastDir
	spawn := func(name string, fn func()) {
		cl.tasksUp++
		ex.sim.Go(name, nil, fn)
	}
	if ex.tape.Choose(4) != 0 {
		spawn("appender", func() { ex.clAppender(2 + ex.tape.Choose(5)) })
	}
	nr := ex.tape.Choose(4)
	for i := 0; i < nr; i++ {
		spawn(fmt.Sprintf("reader%d", i), func() { ex.clReader(3 + ex.tape.Choose(8)) })
	}
	if ex.tape.Choose(3) == 0 {
		initial := [2]string{st.Stable["ck0"], st.Stable["ck1"]}
		spawn("stable", func() { ex.clStable(2+ex.tape.Choose(5), initial) })
	}
	if st.Last > st.First && ex.tape.Choose(3) == 0 {
		spawn("deleter", func() { ex.clDeleter(1+ex.tape.Choose(2), st.Last-1) })
	}
	// let the others run for a tape-chosen while, then close
	for d := ex.tape.Choose(12); d > 0; d-- {
		ex.sim.Yield("closer-delay")
	}
	seamBefore := 0
	err := ex.callR(func() error { return w.Close() })
	cl.closeRet = true
	if ex.stop() {
		return
	}
	if err != nil {
		ex.violate("close", "close-error:"+errClass(err), "Close: %v", err)
		return
	}
	// after Close returned every method must return ErrClosed
	var l raft.Log
	checks := []struct {
		name string
		fn   func() error
	}{
		{"FirstIndex", func() error { _, e := w.FirstIndex(); return e }},
		{"LastIndex", func() error { _, e := w.LastIndex(); return e }},
		{"GetLog", func() error { return w.GetLog(cl.first0, &l) }},
		{"StoreLogs", func() error { return w.StoreLogs([]*raft.Log{{Index: cl.issuedMax + 1}}) }},
		{"StoreLog", func() error { return w.StoreLog(&raft.Log{Index: cl.issuedMax + 1}) }},
		{"DeleteRange", func() error { return w.DeleteRange(cl.first0, cl.first0) }},
		{"Set", func() error { return w.Set([]byte("k"), []byte("v")) }},
		{"Get", func() error { _, e := w.Get([]byte("k")); return e }},
		{"SetUint64", func() error { return w.SetUint64([]byte("k"), 1) }},
		{"GetUint64", func() error { _, e := w.GetUint64([]byte("k")); return e }},
	}
	for _, c := range checks {
		e := ex.callR(c.fn)
		if ex.stop() {
			return
		}
		if !isClosedErr(e) {
			ex.violate("closed-is-final", "after-close-not-errclosed:"+c.name, "%s after Close returned %v, want ErrClosed", c.name, e)
			return
		}
	}
	seamBefore = ex.stats.SeamCalls
	closesBefore := g.metaCloses
	e2 := ex.callR(func() error { return w.Close() })
	if ex.stop() {
		return
	}
	if e2 != nil || ex.stats.SeamCalls != seamBefore || g.metaCloses != closesBefore {
		ex.violate("closed-is-final", "second-close-not-noop", "second Close returned %v and performed %d seam calls / %d meta closes", e2, ex.stats.SeamCalls-seamBefore, g.metaCloses-closesBefore)
		return
	}
	// wait for the racing calls to finish (bounded: the scheduler reports a deadlock)
	ex.sim.WaitUntil("wait-racers", func() bool { return cl.tasksEnd == cl.tasksUp })
	ex.sim.Quiesce("quiesce-after-close")
	if ex.stop() {
		return
	}
	for _, f := range cl.deferred {
		f()
	}
	cl.deferred = nil
	if !ex.sim.RotatorGone(dir) {
		ex.violate("closed-is-final", "rotator-still-running", "the background rotation goroutine has not exited after Close and quiescence")
		return
	}
	if g.openHandles != 0 {
		ex.violate("handles-released", "handles-leaked-after-close", "%d file handles still open after Close and after all in-flight calls finished", g.openHandles)
		return
	}
	if g.metaCloses != 1 {
		ex.violate("closed-is-final", "meta-close-count", "the MetaStore was closed %d times", g.metaCloses)
		return
	}
	ex.probes.Add("close_races", 1)
	ex.probes.Add("racing_calls_got_errclosed", int64(cl.closedSeen))
	ex.sigParts = append(ex.sigParts, fmt.Sprintf("sched:%x", ex.sim.Sig))
	// everything acknowledged before Close is present after the next Open
	var w2 *wal.WAL
	err = ex.call("Open", func() error {
		var e error
		w2, e = ex.openWAL(g, ex.cfg.CodecID, ex.cfg.SegSize)
		return e
	})
	if ex.stop() {
		return
	}
	if err != nil {
		ex.violate("open-succeeds", "reopen-failed:"+errClass(err), "Open after Close failed: %v", err)
		return
	}
	ex.w = w2
	ex.or.Restart()
	ex.observeAndCheck("after-close-reopen", false, true)
}

// everAtList: index -> entry, an association list instead of a map because
// several tasks touch it (serially) and Go maps carry race-detector hooks in
// the runtime. Indexes may be huge (logs not starting at 1), so it is keyed,
// not positional; a run submits a few hundred entries at most.
type everAtList []everAtEnt

type everAtEnt struct {
	idx uint64
	e   *model.Entry
}

func (l everAtList) get(i uint64) *model.Entry {
	for k := len(l) - 1; k >= 0; k-- {
		if l[k].idx == i {
			return l[k].e
		}
	}
	return nil
}

func (l *everAtList) set(i uint64, e *model.Entry) {
	for k := len(*l) - 1; k >= 0; k-- {
		if (*l)[k].idx == i {
			(*l)[k].e = e
			return
		}
	}
	*l = append(*l, everAtEnt{i, e})
}
