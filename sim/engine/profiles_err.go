package engine

func init() {
	generators["C10"] = func(p *pg) (Config, Plan) {
		if p.r.Intn(6) == 0 {
			// concurrent half: readers beside a writer some of whose appends fail
			// (write or fsync error, before / after / short): "entries of a failed
			// StoreLogs are not visible to readers in the running process" is a
			// statement about readers that run WHILE the call fails and rolls back
			c, plan := p.genC06("C10")
			nf := 0
			for i := range plan.Ops {
				if plan.Ops[i].Kind == "append" && i > 0 && p.r.Intn(3) == 0 && nf < 3 {
					plan.Ops[i].Fault = &FaultSpec{Class: "err", Target: []string{"WriteAt", "Sync", "Sync"}[p.r.Intn(3)], K: p.r.Pick([]int{80, 15, 5}), When: []string{"before", "after", "mid"}[p.r.Intn(3)]}
					nf++
				}
			}
			return c, plan
		}
		return p.genErr("C10")
	}
}

var errTargets = []string{"", "", "", "", "WriteAt", "Sync", "CommitState", "Create", "Delete", "ListDir", "OpenReader", "OpenWriter", "ReadAt", "Load", "SetStable", "GetStable"}

func (p *pg) errFault() *FaultSpec {
	f := &FaultSpec{Class: "err"}
	f.Target = errTargets[p.r.Intn(len(errTargets))]
	if f.Target == "" {
		f.K = p.r.Pick([]int{25, 20, 15, 10, 8, 6, 5, 4, 3, 2, 1, 1})
	} else {
		f.K = p.r.Pick([]int{70, 20, 7, 3})
	}
	f.When = []string{"before", "before", "after", "mid"}[p.r.Intn(4)]
	f.Persistent = p.r.Intn(5) == 0
	return f
}

// genErr: workloads with one to three injected I/O errors (transient or
// persistent, fail-before / fail-after / partial), each followed by further
// fault-free operations and a clean reopen.
func (p *pg) genErr(profile string) (Config, Plan) {
	c := p.baseConfig(profile)
	c.Strict = true
	c.SegSize = []int{64, 128, 200, 256, 512, 1024, 4096}[p.r.Intn(7)]
	if p.r.Intn(3) == 0 {
		return c, p.errChains(&c)
	}
	kinds := []string{"append", "append", "append", "deltail", "delhead", "delall", "reopen", "yield", "quiesce", "set", "get", "getstable"}
	mix := p.swarmMix(kinds, "append")
	n := p.ops(8 + p.r.Intn(30))
	var plan Plan
	for i := 0; i < n; i++ {
		op := p.draw(mix)
		plan.Ops = append(plan.Ops, op)
		if op.Kind == "append" && p.r.Intn(3) == 0 {
			plan.Ops = append(plan.Ops, OpSpec{Kind: []string{"yield", "quiesce"}[p.r.Intn(2)]})
		}
	}
	nf := 1 + p.r.Pick([]int{50, 35, 15})
	for k := 0; k < nf; k++ {
		for tries := 0; tries < 20; tries++ {
			i := p.r.Intn(len(plan.Ops))
			op := &plan.Ops[i]
			if op.Fault != nil {
				continue
			}
			switch op.Kind {
			case "append", "delhead", "deltail", "delall", "reopen", "yield", "quiesce", "set", "get":
			default:
				continue
			}
			op.Fault = p.errFault()
			if op.Kind == "reopen" {
				// recovery is read-mostly: spread the fault over the calls Open makes
				// (header reads, the tail scan, index reads, metadata load, listing)
				op.Fault.Target = []string{"ReadAt", "ReadAt", "ReadAt", "ReadAt", "Load", "ListDir", "OpenReader", "OpenWriter", "Create", "Sync", "CommitState", "Delete"}[p.r.Intn(12)]
				op.Fault.K = p.r.Intn(8)
			}
			if op.Fault.Persistent {
				// lift the persistent fault a few ops later so the workload continues
				j := i + 1 + p.r.Intn(4)
				if j > len(plan.Ops) {
					j = len(plan.Ops)
				}
				plan.Ops = append(plan.Ops[:j], append([]OpSpec{{Kind: "clearfaults"}}, plan.Ops[j:]...)...)
			}
			// aftermath pattern: failed op, exactly one more acknowledged write, clean
			// restart. In-memory state left dirty by the failed call (offsets, rolling
			// CRC, buffers) typically poisons only the NEXT write and shows only when
			// recovery re-reads the file; further writes would mask it.
			if !op.Fault.Persistent && p.r.Intn(3) == 0 {
				after := []OpSpec{p.appendOp(), {Kind: "reopen"}}
				if p.r.Intn(4) == 0 {
					second := p.appendOp()
					if k := p.r.Intn(3); k > 0 {
						second = p.deleteOp([]string{"", "deltail", "delhead"}[k])
					}
					after = []OpSpec{p.appendOp(), second, {Kind: "reopen"}}
				}
				plan.Ops = append(plan.Ops[:i+1], append(after, plan.Ops[i+1:]...)...)
				break
			}
			// pairs of failures in consecutive ops
			if p.r.Intn(4) == 0 && i+1 < len(plan.Ops) && plan.Ops[i+1].Fault == nil && plan.Ops[i+1].Kind != "clearfaults" {
				plan.Ops[i+1].Fault = p.errFault()
				plan.Ops[i+1].Fault.Persistent = false
			}
			break
		}
	}
	return c, plan
}

// errChains: short chains around ONE failed call - the dense corner of the
// error space in which the defects of this code base have lived: what a failed
// append / seal / truncation leaves in the writer's memory (offsets, indexStart,
// rolling CRC, sealed flag) or in the file shows only through the one or two
// calls that follow it and, often, only after the next reopen. Random plans
// reach a given (failing call, fault position, follow-up) combination about
// once in tens of thousands of runs; here the skeleton is fixed and everything
// else is drawn.
func (p *pg) errChains(c *Config) Plan {
	c.SegSize = []int{256, 1024, 4096}[p.r.Intn(3)]
	c.Strict = true
	var plan Plan
	small := func(n int) OpSpec {
		op := OpSpec{Kind: "append", N: n, Var: 0}
		for i := 0; i < n; i++ {
			op.Sizes = append(op.Sizes, []int{8, 16, 40, 100}[p.r.Intn(4)])
			op.Ext = append(op.Ext, 0)
		}
		return op
	}
	sealing := func() OpSpec {
		// a batch that takes the tail past its size limit
		op := small(1 + p.r.Intn(2))
		op.Sizes = append(op.Sizes, c.SegSize-64+p.r.Intn(128))
		op.Ext = append(op.Ext, 0)
		op.N++
		return op
	}
	for i := 1 + p.r.Intn(3); i > 0; i-- {
		plan.Ops = append(plan.Ops, small(1+p.r.Intn(3)))
	}
	var f OpSpec
	switch p.r.Intn(10) {
	case 0, 1, 2:
		f = sealing()
	case 3:
		f = small(1 + p.r.Intn(3))
	case 4, 5, 6:
		f = OpSpec{Kind: "deltail", K: 1 + p.r.Intn(3), Var: p.r.Intn(3)}
	case 7:
		f = OpSpec{Kind: "delhead", K: 1 + p.r.Intn(6), Var: p.r.Intn(3)}
	case 8:
		f = OpSpec{Kind: "delall", Var: p.r.Intn(3)}
	default:
		f = OpSpec{Kind: "quiesce"} // the background rotation's own calls
		plan.Ops = append(plan.Ops, sealing())
	}
	if f.Kind != "quiesce" && p.r.Intn(3) == 0 {
		// a rotation is (probably still) pending when the failing call starts: the
		// call waits for it, and the failure may be the rotation's own
		plan.Ops = append(plan.Ops, sealing())
	}
	f.Fault = &FaultSpec{Class: "err",
		Target: []string{"WriteAt", "WriteAt", "Sync", "Sync", "Sync", "CommitState", "Create", "Create", ""}[p.r.Intn(9)],
		K:      p.r.Pick([]int{60, 30, 10}),
		When:   []string{"before", "before", "after", "mid"}[p.r.Intn(4)]}
	plan.Ops = append(plan.Ops, f)
	// follow-up: retry the failed call, or one or two other writes
	for i := 1 + p.r.Intn(2); i > 0; i-- {
		switch p.r.Intn(6) {
		case 0:
			g := f
			g.Fault = nil
			if g.Kind != "quiesce" {
				plan.Ops = append(plan.Ops, g)
			}
		case 1, 2:
			plan.Ops = append(plan.Ops, small(1+p.r.Intn(2)))
		case 3:
			plan.Ops = append(plan.Ops, OpSpec{Kind: "deltail", K: 1 + p.r.Intn(2), Var: p.r.Intn(3)})
		case 4:
			plan.Ops = append(plan.Ops, OpSpec{Kind: "delhead", K: 1 + p.r.Intn(3), Var: p.r.Intn(3)})
		default:
			plan.Ops = append(plan.Ops, sealing())
		}
	}
	plan.Ops = append(plan.Ops, OpSpec{Kind: "reopen"}, small(1), OpSpec{Kind: "reopen"})
	return plan
}
