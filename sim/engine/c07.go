package engine

import (
	"bytes"
	"encoding/json"
	"errors"
	"fmt"
	"io"
	"os"
	"os/exec"
	"path/filepath"
	"regexp"
	"sort"
	"strconv"
	"strings"
	"syscall"

	"github.com/hashicorp/raft"
	wal "github.com/hashicorp/raft-wal"
	"github.com/hashicorp/raft-wal/fs"
	"github.com/hashicorp/raft-wal/metadb"
	"github.com/hashicorp/raft-wal/segment"
	"github.com/hashicorp/raft-wal/types"
	"verif/sim/model"
	"verif/sim/simdisk"
	"verif/sim/tape"
)

// Configuration B (DESIGN section 1): everything real, including fs/, metadb/
// and bbolt; the seam is the kernel boundary, recorded with strace. Three kinds
// of run: (trace) a seeded workload through wal.Open(dir) with production
// defaults under strace, judged by per-file ordering rules relative to the
// acknowledgement markers; (diff) the same VFS call sequence applied to fs.FS
// and to the simulated disk must agree; (kill) the worker SIGKILLs itself at a
// chosen fs/metadb call and a second process must recover everything that was
// acknowledged.

func init() {
	generators["C07"] = func(p *pg) (Config, Plan) {
		c := p.baseConfig("C07")
		c.SegSize = []int{512, 1024, 4096, 65536}[p.r.Intn(4)]
		c.Disk, c.Meta = "real", "bolt"
		return c, Plan{}
	}
	customRunners["C07"] = runC07
}

type c07op struct {
	Kind  string `json:"kind"`
	N     int    `json:"n,omitempty"`
	Sizes []int  `json:"sizes,omitempty"`
	K     int    `json:"k,omitempty"`
	Key   string `json:"key,omitempty"`
}

type c07plan struct {
	SegSize int     `json:"seg_size"`
	First   uint64  `json:"first"`
	Ops     []c07op `json:"ops"`
	KillAt  int     `json:"kill_at,omitempty"` // kill mode: SIGKILL before the n-th fs/metadb call
	Probe   bool    `json:"probe,omitempty"`   // run the VFS-level Create probe
}

func genC07Plan(tp *tape.Tape, cfg Config) c07plan {
	p := c07plan{SegSize: cfg.SegSize, First: []uint64{1, 1, 2, 1000}[tp.Choose(4)], Probe: tp.Choose(3) == 0}
	n := 4 + tp.Choose(14)
	for i := 0; i < n; i++ {
		switch tp.Choose(10) {
		case 0, 1, 2, 3, 4:
			op := c07op{Kind: "append", N: 1 + tp.Choose(3)}
			for j := 0; j < op.N; j++ {
				op.Sizes = append(op.Sizes, []int{0, 8, 40, 200, 1000, 3000}[tp.Choose(6)])
			}
			p.Ops = append(p.Ops, op)
		case 5:
			p.Ops = append(p.Ops, c07op{Kind: "delhead", K: 1 + tp.Choose(3)})
		case 6:
			p.Ops = append(p.Ops, c07op{Kind: "deltail", K: 1 + tp.Choose(3)})
		case 7:
			p.Ops = append(p.Ops, c07op{Kind: "reopen"})
		case 8:
			p.Ops = append(p.Ops, c07op{Kind: "set", Key: fmt.Sprintf("k%d", tp.Choose(3)), N: 8 + tp.Choose(100)})
		case 9:
			p.Ops = append(p.Ops, c07op{Kind: "delall"})
		}
	}
	return p
}

func marker(format string, args ...interface{}) {
	syscall.Write(-1, []byte("VERIF "+fmt.Sprintf(format, args...)))
}

// killVFS / killMeta are pass-through wrappers that count calls and SIGKILL
// the process before call number killAt.
type killer struct {
	n, at int
}

func (k *killer) tick() {
	k.n++
	if k.at > 0 && k.n == k.at {
		syscall.Kill(os.Getpid(), syscall.SIGKILL)
		select {}
	}
}

type killVFS struct {
	fs.FS
	k *killer
}

func (v *killVFS) ListDir(d string) ([]string, error) { v.k.tick(); return v.FS.ListDir(d) }
func (v *killVFS) Create(d, n string, s uint64) (types.WritableFile, error) {
	v.k.tick()
	f, err := v.FS.Create(d, n, s)
	if err != nil {
		return nil, err
	}
	return &killFile{WritableFile: f, k: v.k}, nil
}
func (v *killVFS) Delete(d, n string) error { v.k.tick(); return v.FS.Delete(d, n) }
func (v *killVFS) OpenReader(d, n string) (types.ReadableFile, error) {
	v.k.tick()
	return v.FS.OpenReader(d, n)
}
func (v *killVFS) OpenWriter(d, n string) (types.WritableFile, error) {
	v.k.tick()
	f, err := v.FS.OpenWriter(d, n)
	if err != nil {
		return nil, err
	}
	return &killFile{WritableFile: f, k: v.k}, nil
}

type killFile struct {
	types.WritableFile
	k *killer
}

func (f *killFile) WriteAt(p []byte, o int64) (int, error) {
	f.k.tick()
	return f.WritableFile.WriteAt(p, o)
}
func (f *killFile) Sync() error { f.k.tick(); return f.WritableFile.Sync() }

type killMeta struct {
	metadb.BoltMetaDB
	k *killer
}

func (m *killMeta) Load(d string) (types.PersistentState, error) {
	m.k.tick()
	return m.BoltMetaDB.Load(d)
}
func (m *killMeta) CommitState(s types.PersistentState) error {
	m.k.tick()
	return m.BoltMetaDB.CommitState(s)
}
func (m *killMeta) SetStable(k, v []byte) error { m.k.tick(); return m.BoltMetaDB.SetStable(k, v) }

// C07WorkerMain executes a plan against the real stack. Modes: trace (pure
// production defaults + marker syscalls), kill (pass-through wrappers, SIGKILL),
// verify (recover a directory and check the acknowledged ops listed in a file).
func C07WorkerMain(args []string) {
	if len(args) < 3 {
		fmt.Fprintln(os.Stderr, "usage: walsim c07worker <trace|kill|verify> <dir> <plan.json> [acks]")
		os.Exit(2)
	}
	mode, dir := args[0], args[1]
	var p c07plan
	b, err := os.ReadFile(args[2])
	if err != nil || json.Unmarshal(b, &p) != nil {
		fmt.Fprintln(os.Stderr, "bad plan")
		os.Exit(2)
	}
	st := model.NewState()
	nextID := uint64(1)
	open := func() (*wal.WAL, error) {
		if mode == "kill" {
			k := &killer{at: p.KillAt}
			c07k.at = p.KillAt
			k = c07k
			return wal.Open(dir, wal.WithSegmentSize(p.SegSize), wal.WithSegmentFiler(segment.NewFiler(dir, &killVFS{k: k})), wal.WithMetaStore(&killMeta{k: k}))
		}
		return wal.Open(dir, wal.WithSegmentSize(p.SegSize))
	}
	if mode == "verify" {
		c07verify(dir, p, args[3])
		return
	}
	if p.Probe && mode == "trace" {
		c07createProbe(dir)
	}
	marker("op=-1 kind=Open begin")
	w, err := open()
	marker("op=-1 kind=Open ack err=%v", err != nil)
	if err != nil {
		fmt.Println("OPENFAIL", err)
		os.Exit(3)
	}
	for i, op := range p.Ops {
		switch op.Kind {
		case "append":
			idx := st.Last + 1
			if st.Empty() {
				idx = p.First
			}
			var es []*model.Entry
			var logs []*raft.Log
			for j := 0; j < op.N; j++ {
				e := &model.Entry{ID: nextID, Index: idx + uint64(j), Size: op.Sizes[j]}
				nextID++
				es = append(es, e)
				logs = append(logs, e.Log())
			}
			marker("op=%d kind=StoreLogs begin", i)
			err := w.StoreLogs(logs)
			marker("op=%d kind=StoreLogs ack err=%v", i, err != nil)
			if err == nil {
				st.Apply(model.Op{Kind: model.OpAppend, Entries: es})
				fmt.Printf("ACK append %d %d %d\n", es[0].Index, es[len(es)-1].Index, es[0].ID)
			}
		case "bulk":
			// op.K batches of op.N tiny entries each
			for b := 0; b < op.K; b++ {
				idx := st.Last + 1
				if st.Empty() {
					idx = p.First
				}
				var es []*model.Entry
				var logs []*raft.Log
				for j := 0; j < op.N; j++ {
					e := &model.Entry{ID: nextID, Index: idx + uint64(j), Size: op.Sizes[0]}
					nextID++
					es = append(es, e)
					logs = append(logs, e.Log())
				}
				marker("op=%d kind=StoreLogs begin", i)
				err := w.StoreLogs(logs)
				marker("op=%d kind=StoreLogs ack err=%v", i, err != nil)
				if err == nil {
					st.Apply(model.Op{Kind: model.OpAppend, Entries: es})
					fmt.Printf("ACK append %d %d %d\n", es[0].Index, es[len(es)-1].Index, es[0].ID)
				}
			}
		case "delhead", "deltail", "delall":
			if st.Empty() {
				continue
			}
			min, max := st.First, st.Last
			k := uint64(op.K)
			if op.Kind == "delhead" {
				max = st.First + k - 1
				if max > st.Last {
					max = st.Last
				}
			} else if op.Kind == "deltail" {
				if k > st.Last-st.First+1 {
					k = st.Last - st.First + 1
				}
				min = st.Last - k + 1
			}
			fmt.Printf("ISSUE delete %d %d\n", min, max)
			marker("op=%d kind=DeleteRange begin", i)
			err := w.DeleteRange(min, max)
			marker("op=%d kind=DeleteRange ack err=%v", i, err != nil)
			if err == nil {
				st.Apply(model.Op{Kind: model.OpDelete, Min: min, Max: max})
				fmt.Printf("ACK delete %d %d\n", min, max)
			}
		case "set":
			v := bytes.Repeat([]byte{byte(i)}, op.N)
			marker("op=%d kind=Set begin", i)
			err := w.Set([]byte(op.Key), v)
			marker("op=%d kind=Set ack err=%v", i, err != nil)
			if err == nil {
				fmt.Printf("ACK set %s %d %d\n", op.Key, i, op.N)
			}
		case "reopen":
			marker("op=%d kind=Close begin", i)
			w.Close()
			marker("op=%d kind=Close ack err=false", i)
			marker("op=%d kind=Open begin", i)
			w, err = open()
			marker("op=%d kind=Open ack err=%v", i, err != nil)
			if err != nil {
				fmt.Println("OPENFAIL", err)
				os.Exit(3)
			}
		}
	}
	marker("op=999 kind=Close begin")
	w.Close()
	marker("op=999 kind=Close ack err=false")
	fmt.Println("DONE")
}

var c07k = &killer{}

// c07createProbe: Create must be exclusive and yield `size` zero bytes.
func c07createProbe(dir string) {
	v := fs.New()
	name := "probe-create.tmpfile"
	f, err := v.Create(dir, name, 8192)
	if err != nil {
		fmt.Println("PROBE create-failed", err)
		return
	}
	st, _ := os.Stat(filepath.Join(dir, name))
	buf := make([]byte, 8192)
	n, _ := f.ReadAt(buf, 0)
	zero := true
	for _, b := range buf[:n] {
		if b != 0 {
			zero = false
		}
	}
	_, err2 := v.Create(dir, name, 8192)
	fmt.Printf("PROBE size=%d read=%d zero=%v second_create_err=%v\n", st.Size(), n, zero, err2 != nil)
	f.Close()
	os.Remove(filepath.Join(dir, name))
}

func c07verify(dir string, p c07plan, acksFile string) {
	b, _ := os.ReadFile(acksFile)
	type ent struct{ id uint64 }
	want := map[uint64]uint64{} // index -> first id of its batch + offset
	var setKeys = map[string][2]int{}
	for _, ln := range strings.Split(string(b), "\n") {
		f := strings.Fields(ln)
		if len(f) < 2 {
			continue
		}
		switch {
		case f[0] == "ACK" && f[1] == "append":
			a, _ := strconv.ParseUint(f[2], 10, 64)
			z, _ := strconv.ParseUint(f[3], 10, 64)
			id, _ := strconv.ParseUint(f[4], 10, 64)
			for i := a; i <= z; i++ {
				want[i] = id + (i - a)
			}
		case f[1] == "delete": // issued or acknowledged: no longer protected
			a, _ := strconv.ParseUint(f[2], 10, 64)
			z, _ := strconv.ParseUint(f[3], 10, 64)
			for i := range want {
				if i >= a && i <= z {
					delete(want, i)
				}
			}
		case f[0] == "ACK" && f[1] == "set":
			i, _ := strconv.Atoi(f[3])
			n, _ := strconv.Atoi(f[4])
			setKeys[f[2]] = [2]int{i, n}
		}
	}
	w, err := wal.Open(dir, wal.WithSegmentSize(p.SegSize))
	if err != nil {
		fmt.Println("VERIFY open-failed:", err)
		os.Exit(1)
	}
	first, _ := w.FirstIndex()
	last, _ := w.LastIndex()
	idxs := make([]uint64, 0, len(want))
	for i := range want {
		idxs = append(idxs, i)
	}
	sort.Slice(idxs, func(a, b int) bool { return idxs[a] < idxs[b] })
	sizesOf := map[uint64]int{}
	id := uint64(1)
	for _, op := range p.Ops {
		if op.Kind == "append" {
			for j := 0; j < op.N; j++ {
				sizesOf[id] = op.Sizes[j]
				id++
			}
		}
	}
	for _, i := range idxs {
		if i < first || i > last {
			fmt.Printf("VERIFY acked-entry-outside: index %d not in [%d,%d]\n", i, first, last)
			os.Exit(1)
		}
		var l raft.Log
		if err := w.GetLog(i, &l); err != nil {
			fmt.Printf("VERIFY acked-entry-unreadable: index %d: %v\n", i, err)
			os.Exit(1)
		}
		e := &model.Entry{ID: want[i], Index: i, Size: sizesOf[want[i]]}
		if d := model.DiffLog(e.Log(), &l); d != "" {
			fmt.Printf("VERIFY acked-entry-altered: index %d: %s\n", i, d)
			os.Exit(1)
		}
	}
	for k, v := range setKeys {
		got, err := w.Get([]byte(k))
		if err != nil || !bytes.Equal(got, bytes.Repeat([]byte{byte(v[0])}, v[1])) {
			fmt.Printf("VERIFY stable-lost: key %s\n", k)
			os.Exit(1)
		}
	}
	// usable afterwards
	next := last + 1
	if last == 0 {
		next = 1
	}
	if err := w.StoreLogs([]*raft.Log{{Index: next, Data: []byte("post-recovery")}}); err != nil {
		fmt.Println("VERIFY append-after-recovery-failed:", err)
		os.Exit(1)
	}
	w.Close()
	fmt.Println("VERIFY ok", len(idxs))
}

// ---------------------------------------------------------------- trace oracle

var reFdPath = regexp.MustCompile(`^(\d+)<([^>]*)>`)

type traceState struct {
	dir       string
	dirty     map[string]bool   // .wal path -> written since last fsync
	written   map[string]bool   // .wal path -> ever written in this process
	needDir   map[string]string // .wal path -> "created" | "opened": no dir fsync since
	unlinked  []string          // unlinked .wal files with no dir fsync since
	metaTmpOK bool              // tmp db fdatasynced after its last write
	metaTmpW  bool
	renamed   bool
	renDirOK  bool
	viol      string
	counts    Counters
	lastCreat map[string]bool // created fds awaiting fallocate/ftruncate
}

// judgeTrace applies R1-R5 to an strace -f -y log.
func judgeTrace(dir string, trace string, owSyncsDir bool) (string, Counters) {
	ts := &traceState{dir: dir, dirty: map[string]bool{}, written: map[string]bool{}, needDir: map[string]string{}, counts: Counters{}, lastCreat: map[string]bool{}}
	final := filepath.Join(dir, metadb.FileName)
	tmp := final + ".tmp"
	unfinished := map[string]string{}
	for _, raw := range strings.Split(trace, "\n") {
		ln := raw
		// "<pid> syscall(...)" ; merge "<unfinished ...>" / "<... resumed>"
		sp := strings.IndexByte(ln, ' ')
		if sp < 0 {
			continue
		}
		pid := ln[:sp]
		ln = strings.TrimSpace(ln[sp+1:])
		if strings.HasSuffix(ln, "<unfinished ...>") {
			unfinished[pid] = strings.TrimSuffix(ln, "<unfinished ...>")
			continue
		}
		if strings.HasPrefix(ln, "<... ") {
			if i := strings.Index(ln, "resumed>"); i >= 0 {
				ln = unfinished[pid] + ln[i+len("resumed>"):]
				delete(unfinished, pid)
			}
		}
		par := strings.IndexByte(ln, '(')
		if par < 0 {
			continue
		}
		call := ln[:par]
		argsRet := ln[par+1:]
		ok := !strings.Contains(argsRet, ") = -1")
		switch call {
		case "write":
			if i := strings.Index(argsRet, "VERIF "); i >= 0 && strings.HasPrefix(argsRet, "-1") {
				m := argsRet[i:]
				if j := strings.IndexByte(m, '"'); j >= 0 {
					m = m[:j]
				}
				ts.marker(m)
			}
		case "openat":
			if !ok {
				continue
			}
			path := ""
			if i := strings.IndexByte(argsRet, '"'); i >= 0 {
				rest := argsRet[i+1:]
				if j := strings.IndexByte(rest, '"'); j >= 0 {
					path = rest[:j]
				}
			}
			if !filepath.IsAbs(path) {
				path = filepath.Join(dir, path)
			}
			creat := strings.Contains(argsRet, "O_CREAT")
			switch {
			case strings.HasSuffix(path, ".wal"):
				if creat {
					ts.counts.Add("wal_created", 1)
					if !strings.Contains(argsRet, "O_EXCL") {
						ts.fail("R4: segment file %s created without O_EXCL", filepath.Base(path))
					}
					ts.needDir[path] = "created"
					ts.lastCreat[path] = true
				} else if strings.Contains(argsRet, "O_RDWR") {
					ts.counts.Add("wal_opened_rw", 1)
					if owSyncsDir {
						ts.needDir[path] = "opened"
					}
				}
			case path == final && creat:
				// bbolt opens with O_CREAT always; the file must already exist by then
				if !ts.renamed && !ts.existedAtStart(final) {
					ts.fail("R5: %s opened with O_CREAT under its final name before any rename from the temporary name", metadb.FileName)
				}
			}
		case "fallocate", "ftruncate":
			if m := reFdPath.FindStringSubmatch(argsRet); m != nil && strings.HasSuffix(m[2], ".wal") {
				delete(ts.lastCreat, m[2])
				ts.counts.Add("wal_preallocated", 1)
			}
		case "pwrite64":
			m := reFdPath.FindStringSubmatch(argsRet)
			if m == nil || !ok {
				continue
			}
			p := m[2]
			if strings.HasSuffix(p, ".wal") {
				if ts.lastCreat[p] {
					ts.fail("R4: segment file %s written before it was preallocated", filepath.Base(p))
				}
				ts.dirty[p] = true
				ts.written[p] = true
				ts.counts.Add("wal_pwrite", 1)
			} else if p == tmp {
				ts.metaTmpW, ts.metaTmpOK = true, false
			}
		case "fsync", "fdatasync":
			m := reFdPath.FindStringSubmatch(argsRet)
			if m == nil || !ok {
				continue
			}
			p := m[2]
			switch {
			case strings.HasSuffix(p, ".wal"):
				ts.dirty[p] = false
				ts.counts.Add("wal_fsync", 1)
			case p == dir:
				ts.counts.Add("dir_fsync", 1)
				ts.needDir = map[string]string{}
				ts.unlinked = nil
				if ts.renamed {
					ts.renDirOK = true
				}
			case p == tmp:
				ts.metaTmpOK = true
			}
		case "unlinkat", "unlink":
			if !ok {
				continue
			}
			if i := strings.IndexByte(argsRet, '"'); i >= 0 {
				rest := argsRet[i+1:]
				if j := strings.IndexByte(rest, '"'); j >= 0 && strings.HasSuffix(rest[:j], ".wal") {
					ts.unlinked = append(ts.unlinked, filepath.Base(rest[:j]))
					ts.counts.Add("wal_unlinked", 1)
				}
			}
		case "rename", "renameat", "renameat2":
			if !ok || !strings.Contains(argsRet, metadb.FileName+".tmp") {
				continue
			}
			ts.counts.Add("meta_renamed", 1)
			if ts.metaTmpW && !ts.metaTmpOK {
				ts.fail("R5: %s renamed into place with writes not followed by fsync/fdatasync", metadb.FileName)
			}
			ts.renamed = true
		}
		if ts.viol != "" {
			break
		}
	}
	return ts.viol, ts.counts
}

func (ts *traceState) existedAtStart(string) bool { return ts.counts["open_acks"] > 0 }

func (ts *traceState) fail(format string, args ...interface{}) {
	if ts.viol == "" {
		ts.viol = fmt.Sprintf(format, args...)
	}
}

func (ts *traceState) marker(m string) {
	// "VERIF op=N kind=K begin|ack err=bool"
	f := strings.Fields(m)
	if len(f) < 4 {
		return
	}
	kind := strings.TrimPrefix(f[2], "kind=")
	if f[3] != "ack" {
		return
	}
	failed := len(f) > 4 && f[4] == "err=true"
	ts.counts.Add("acks_"+kind, 1)
	if len(ts.unlinked) > 0 {
		ts.fail("R3: %s acknowledged with segment deletion(s) %v not followed by a directory fsync", kind, ts.unlinked)
		return
	}
	switch kind {
	case "StoreLogs":
		if failed {
			return
		}
		var names []string
		for p, d := range ts.dirty {
			if d {
				names = append(names, filepath.Base(p))
			}
		}
		sort.Strings(names)
		if len(names) > 0 {
			ts.fail("R1: StoreLogs acknowledged with bytes written to %v and not fsynced", names)
			return
		}
		for p, how := range ts.needDir {
			if ts.written[p] {
				ts.fail("R2: StoreLogs acknowledged for segment file %s (%s in this process) without an fsync of the containing directory since", filepath.Base(p), how)
				return
			}
		}
	case "Open":
		ts.counts.Add("open_acks", 1)
		if ts.renamed && !ts.renDirOK {
			ts.fail("R5: Open acknowledged after renaming %s into place without a directory fsync", metadb.FileName)
		}
	}
}

// ---------------------------------------------------------------- runner

func runC07(prop string, seed uint64, cfg Config, plan Plan, tp *tape.Tape) *RunResult {
	r := &RunResult{Seed: seed, Config: cfg, Plan: plan, Stats: &RunStats{Fired: Counters{}, Probes: Counters{}, Points: Counters{}, Gens: 1, Ops: 1, Nontrivial: true}}
	defer func() { r.Tape = tp.Rec }()
	logf := func(f string, a ...interface{}) { r.Log = append(r.Log, fmt.Sprintf(f, a...)) }
	violate := func(oracle, class, format string, args ...interface{}) {
		r.Viol = &Violation{Property: prop, Oracle: oracle, Class: class, Message: fmt.Sprintf(format, args...)}
	}
	mode := []string{"trace", "trace", "trace", "diff", "diff", "kill"}[tp.Choose(6)]
	r.Stats.CaseSig = mode
	if mode == "diff" {
		if d := c07diff(tp, logf); d != "" {
			violate("stub-fidelity", "simdisk-differs-from-fs:"+errClass(errors.New(d)), "%s", d)
		}
		r.Stats.Probes.Add("diff_runs", 1)
		r.Stats.CaseSig = fmt.Sprintf("diff:%d", tp.Len()%64)
		return r
	}
	dir, err := os.MkdirTemp(shmDir(), "walsim-c07-")
	if err != nil {
		r.HarnessErr = err.Error()
		return r
	}
	defer os.RemoveAll(dir)
	p := genC07Plan(tp, cfg)
	if mode == "trace" && tp.Choose(12) == 0 {
		// production-like geometry: one multi-MiB segment filled with hundreds of
		// thousands of tiny entries, so that the batch that seals it carries an
		// index frame of more than a MiB (every small-segment run has index frames
		// of a few bytes), followed by the ordinary operations on the next segment
		p.SegSize = 12 << 20
		bulk := c07op{Kind: "bulk", N: 6000 + tp.Choose(3000), K: 44 + tp.Choose(8), Sizes: []int{[]int{0, 0, 8}[tp.Choose(3)]}}
		p.Ops = append([]c07op{bulk}, p.Ops...)
		r.Stats.Probes.Add("trace_bulk_runs", 1)
	}
	exe, _ := os.Executable()
	if mode == "kill" {
		p.KillAt = 1 + tp.Choose(60)
	}
	pb, _ := json.Marshal(p)
	planFile := filepath.Join(dir, "plan.json.ctl")
	os.WriteFile(planFile, pb, 0o644)
	data := filepath.Join(dir, "d")
	os.Mkdir(data, 0o755)
	logf("mode=%s plan=%s", mode, pb)
	switch mode {
	case "trace":
		tf := filepath.Join(dir, "trace.ctl")
		cmd := exec.Command("strace", "-f", "-y", "-s", "120", "-o", tf,
			"-e", "trace=openat,pwrite64,write,fsync,fdatasync,fallocate,ftruncate,rename,renameat,renameat2,unlink,unlinkat",
			exe, "c07worker", "trace", data, planFile)
		out, err := cmd.CombinedOutput()
		if err != nil || !bytes.Contains(out, []byte("DONE")) {
			r.HarnessErr = fmt.Sprintf("traced worker failed: %v\n%s", err, tailBytes(out, 2000))
			return r
		}
		tb, _ := os.ReadFile(tf)
		v, counts := judgeTrace(data, string(tb), openWriterSyncsDir)
		for k, n := range counts {
			r.Stats.Probes.Add("trace_"+k, n)
		}
		r.Stats.Probes.Add("trace_runs", 1)
		if v != "" {
			violate("fsync-discipline", "trace-rule:"+v[:2], "%s", v)
			logf("trace:\n%s", tailBytes(tb, 6000))
			return r
		}
		if p.Probe {
			s := string(out)
			if i := strings.Index(s, "PROBE "); i >= 0 {
				ln := firstLine(s[i:])
				r.Stats.Probes.Add("create_probes", 1)
				if !strings.Contains(ln, "size=8192 read=8192 zero=true second_create_err=true") {
					violate("create-contract", "create-probe", "fs.Create(dir,name,8192): %s", ln)
				}
			}
		}
		r.Stats.CaseSig = fmt.Sprintf("trace:%d:%d:%d", counts["wal_created"], counts["wal_unlinked"], counts["acks_Open"])
	case "kill":
		cmd := exec.Command(exe, "c07worker", "kill", data, planFile)
		out, _ := cmd.CombinedOutput()
		killed := cmd.ProcessState != nil && !cmd.ProcessState.Exited()
		acks := filepath.Join(dir, "acks.ctl")
		os.WriteFile(acks, out, 0o644)
		r.Stats.Probes.Add("kill_runs", 1)
		if killed {
			r.Stats.Fired.Add("sigkill", 1)
		}
		vcmd := exec.Command(exe, "c07worker", "verify", data, planFile, acks)
		vout, verr := vcmd.CombinedOutput()
		logf("first process: killed=%v\n%s\nverify: %s", killed, tailBytes(out, 1500), tailBytes(vout, 1500))
		if verr != nil {
			ln := ""
			if i := bytes.Index(vout, []byte("VERIFY ")); i >= 0 {
				ln = firstLine(string(vout[i:]))
			}
			if ln == "" {
				r.HarnessErr = fmt.Sprintf("verify process failed: %v %s", verr, tailBytes(vout, 1500))
				return r
			}
			cls := strings.Fields(ln)[1]
			violate("recovers-after-sigkill", "real-stack:"+strings.TrimSuffix(cls, ":"), "after SIGKILL before fs/metadb call %d the real stack recovered wrongly: %s", p.KillAt, ln)
		}
		r.Stats.CaseSig = fmt.Sprintf("kill:%d:%v", p.KillAt/4, killed)
	}
	return r
}

// ---------------------------------------------------------------- differential stub fidelity

func errKind(err error) string {
	switch {
	case err == nil:
		return "nil"
	case errors.Is(err, os.ErrNotExist):
		return "notexist"
	case errors.Is(err, os.ErrExist):
		return "exist"
	case errors.Is(err, io.EOF):
		return "eof"
	case errors.Is(err, os.ErrClosed):
		return "closed"
	}
	return "other"
}

// c07diff applies one random VFS call sequence to fs.FS (tmpfs) and to the
// simulated disk (through the same seam-less file semantics the engine uses)
// and compares every result.
func c07diff(tp *tape.Tape, logf func(string, ...interface{})) string {
	dir, err := os.MkdirTemp(shmDir(), "walsim-diff-")
	if err != nil {
		return ""
	}
	defer os.RemoveAll(dir)
	real := fs.New()
	disk := simdisk.New(true)
	type pair struct {
		rw types.WritableFile
		rr types.ReadableFile
		sf *plainSimFile
	}
	open := map[string]*pair{}
	names := []string{"a.wal", "b.wal", "c.wal"}
	steps := 10 + tp.Choose(30)
	for s := 0; s < steps; s++ {
		name := names[tp.Choose(len(names))]
		switch tp.Choose(9) {
		case 0: // create
			size := uint64([]int{0, 64, 4096}[tp.Choose(3)])
			rf, e1 := real.Create(dir, name, size)
			ino, ok := disk.Create(name, size)
			var e2 error
			if !ok {
				e2 = os.ErrExist
			}
			if errKind(e1) != errKind(e2) {
				return fmt.Sprintf("Create(%s,%d): fs %v, simdisk %v", name, size, e1, e2)
			}
			if e1 == nil {
				if p := open[name]; p != nil && p.rw != nil {
					p.rw.Close()
				}
				open[name] = &pair{rw: rf, sf: &plainSimFile{ino: ino}}
			}
		case 1: // open writer
			rf, e1 := real.OpenWriter(dir, name)
			ino := disk.Lookup(name)
			var e2 error
			if ino == nil {
				e2 = os.ErrNotExist
			}
			if errKind(e1) != errKind(e2) {
				return fmt.Sprintf("OpenWriter(%s): fs %v, simdisk %v", name, e1, e2)
			}
			if e1 == nil {
				if p := open[name]; p != nil && p.rw != nil {
					p.rw.Close()
				}
				open[name] = &pair{rw: rf, sf: &plainSimFile{ino: ino}}
			}
		case 2, 3: // write
			p := open[name]
			if p == nil || p.rw == nil {
				continue
			}
			off := int64(tp.Choose(5000))
			buf := make([]byte, 1+tp.Choose(300))
			for i := range buf {
				buf[i] = byte(tp.Choose(255) + 1)
			}
			n1, e1 := p.rw.WriteAt(buf, off)
			n2, e2 := p.sf.WriteAt(buf, off)
			if n1 != n2 || errKind(e1) != errKind(e2) {
				return fmt.Sprintf("WriteAt(%s,%d@%d): fs (%d,%v), simdisk (%d,%v)", name, len(buf), off, n1, e1, n2, e2)
			}
		case 4, 5: // read
			p := open[name]
			if p == nil || p.rw == nil {
				continue
			}
			off := int64(tp.Choose(6000))
			b1 := make([]byte, 1+tp.Choose(400))
			b2 := make([]byte, len(b1))
			n1, e1 := p.rw.ReadAt(b1, off)
			n2, e2 := p.sf.ReadAt(b2, off)
			if n1 != n2 || errKind(e1) != errKind(e2) || !bytes.Equal(b1[:n1], b2[:n2]) {
				return fmt.Sprintf("ReadAt(%s,%d@%d): fs (%d,%v), simdisk (%d,%v) or bytes differ", name, len(b1), off, n1, e1, n2, e2)
			}
		case 6: // sync
			p := open[name]
			if p == nil || p.rw == nil {
				continue
			}
			e1 := p.rw.Sync()
			p.sf.ino.Sync()
			if e1 != nil {
				return fmt.Sprintf("Sync(%s): fs %v", name, e1)
			}
		case 7: // delete (handles keep reading the inode)
			e1 := real.Delete(dir, name)
			var e2 error
			if !disk.Unlink(name) {
				e2 = os.ErrNotExist
			} else {
				disk.SyncDir()
			}
			if errKind(e1) != errKind(e2) {
				return fmt.Sprintf("Delete(%s): fs %v, simdisk %v", name, e1, e2)
			}
		case 8: // list + sizes
			l1, e1 := real.ListDir(dir)
			l2 := disk.List()
			if e1 != nil || strings.Join(l1, ",") != strings.Join(l2, ",") {
				return fmt.Sprintf("ListDir: fs %v (%v), simdisk %v", l1, e1, l2)
			}
			for _, n := range l1 {
				st, err := os.Stat(filepath.Join(dir, n))
				if err == nil && st.Size() != int64(len(disk.Lookup(n).Vol)) {
					return fmt.Sprintf("size of %s: fs %d, simdisk %d", n, st.Size(), len(disk.Lookup(n).Vol))
				}
			}
		}
	}
	for _, p := range open {
		if p.rw != nil {
			p.rw.Close()
		}
	}
	return ""
}

// plainSimFile gives simdisk inodes the os.File read/write semantics without
// the scheduler seams (the engine's simFile adds yields and faults on top).
type plainSimFile struct{ ino *simdisk.Inode }

func (f *plainSimFile) WriteAt(p []byte, off int64) (int, error) {
	f.ino.WriteAt(p, off)
	return len(p), nil
}
func (f *plainSimFile) ReadAt(p []byte, off int64) (int, error) {
	n, eof := f.ino.ReadAt(p, off)
	if eof {
		return n, io.EOF
	}
	return n, nil
}
