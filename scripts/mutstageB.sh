#!/bin/bash
# Mutation sweep, stage B: run the relevant property checks against every mutant that survived the pinned suite.
# One scratch worktree + one scratch copy of sim/ + one build (normal and race) per mutant, then each property's
# master with a small budget; stops at the first property that reports a violation.
# usage: mutstageB.sh <mutdir> [budget_s]   (results: <mutdir>/<id>.B = "caught <prop> <class>" | "missed" | "trouble ...")
M=$1; B=${2:-12}
ROOT=$(cd "$(dirname "$0")/.." && pwd)
export GOFLAGS=-mod=mod GOPROXY=off GOSUMDB=off GOTOOLCHAIN=local
props_for() {
  case "$1" in
    wal.go|state.go|options.go) echo "C05 C01 C10 C14 C13 C04 C03 C06 C20 C02 C08 C12 C11 C09 C15";;
    segment/*) echo "C05 C02 C09 C10 C11 C15 C01 C06 C13 C04";;
    fs/*) echo "C07 C13";;
    metadb/*) echo "C08 C07 C12 C05";;
    codec.go) echo "C12 C11 C15 C05";;
    verifier/*) echo "C16 C17 C18";;
    migrate/*) echo "C19";;
  esac
}
WT=/tmp/wt/mutB; SIM=/tmp/mutB-sim
mkdir -p /tmp/wt
for a in $M/*.A; do
  id=$(basename $a .A)
  [ "$(cat $a)" = survived ] || continue
  [ -f $M/$id.B ] && continue
  f=$(python3 -c "import json;print([x['file'] for x in json.load(open('$M/index.json')) if x['id']=='$id'][0])")
  git -C /repo worktree remove --force $WT 2>/dev/null; rm -rf $SIM; git -C /repo worktree prune
  git -C /repo worktree add -q --detach $WT HEAD && git -C $WT apply $M/$id.diff || { echo "trouble apply" > $M/$id.B; continue; }
  mkdir -p $SIM && cp -r $ROOT/sim/. $SIM/ && cp /repo/go.sum $SIM/go.sum && sed -i "s#=> /repo\$#=> $WT#" $SIM/go.mod && mkdir -p $SIM/bin
  if ! (cd $SIM && go build -tags verif -o $SIM/bin/walsim ./cmd/walsim && go build -race -tags "verif edgefree" -gcflags='verif/sim/...=-race=false' -o $SIM/bin/walsim-race ./cmd/walsim) > $SIM/build.log 2>&1; then
    echo "trouble build: $(tail -2 $SIM/build.log | tr '\n' ' ')" > $M/$id.B; echo "$id $f: trouble build"; continue
  fi
  res="missed"
  for p in $(props_for $f); do
    RACEARG=""; case $p in C06|C14) RACEARG="-racebin $SIM/bin/walsim-race";; esac
    out=$(VERIF_EVIDENCE_DIR=/tmp/mutB-evidence VERIF_BUDGET_S=$B timeout 900 $SIM/bin/walsim check -prop $p -tier quick -root $ROOT $RACEARG 2>&1)
    if echo "$out" | grep -q "^VIOLATION"; then res="caught $p $(echo "$out" | grep -m1 '^  C' | cut -c1-170)"; break; fi
    if echo "$out" | grep -q "CHECK-TROUBLE"; then res="trouble $p $(echo "$out" | grep -m2 -A1 'CHECK-TROUBLE' | tr '\n' ' ' | cut -c1-300)"; break; fi
  done
  echo "$res" > $M/$id.B
  echo "$id $f: $res"
done
git -C /repo worktree remove --force $WT 2>/dev/null; rm -rf $SIM /tmp/mutB-evidence; git -C /repo worktree prune
