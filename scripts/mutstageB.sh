#!/bin/bash
# Mutation sweep, stage B: run the relevant property checks against every mutant that survived the pinned suite.
# usage: mutstageB.sh <mutdir> [budget_s]   (results: <mutdir>/<id>.B = "caught <prop> <class>" | "missed")
M=$1; B=${2:-12}
cd "$(dirname "$0")/.."
props_for() {
  case "$1" in
    wal.go|state.go|options.go) echo "C05 C01 C10 C14 C13 C04 C03 C06 C20 C02";;
    segment/*) echo "C05 C02 C09 C10 C11 C15 C01 C06 C13";;
    fs/*) echo "C07 C13";;
    metadb/*) echo "C08 C07 C12 C05";;
    codec.go) echo "C12 C11 C15 C05";;
    verifier/*) echo "C16 C17 C18";;
    migrate/*) echo "C19";;
  esac
}
for a in $M/*.A; do
  id=$(basename $a .A)
  [ "$(cat $a)" = survived ] || continue
  [ -f $M/$id.B ] && continue
  f=$(python3 -c "import json;print([x['file'] for x in json.load(open('$M/index.json')) if x['id']=='$id'][0])")
  res="missed"
  for p in $(props_for $f); do
    out=$(timeout 900 scripts/mutant.sh $M/$id.diff $p $B 2>&1)
    if echo "$out" | grep -q "^VIOLATION"; then res="caught $p $(echo "$out" | grep -m1 '^  C' | cut -c1-160)"; break; fi
    if echo "$out" | grep -q "CHECK-TROUBLE\|BUILD FAILED\|exit=2"; then res="trouble $p $(echo "$out" | tail -3 | tr '\n' ' ' | cut -c1-200)"; break; fi
  done
  echo "$res" > $M/$id.B
  echo "$id $f: $res"
done
