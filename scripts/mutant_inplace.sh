#!/bin/bash
# usage: scripts/mutant.sh <patch.diff> <prop> [budget_s]  -- applies a patch to /repo, runs the quick check, reverts.
P=$(realpath "$1"); PROP=$2; B=${3:-30}
cd /repo || exit 2
if ! git apply --check "$P" 2>/dev/null; then echo "patch does not apply"; exit 3; fi
git apply "$P"
VERIF_EVIDENCE_DIR=/tmp/walsim-mutant-evidence VERIF_BUDGET_S=$B /verif/scripts/check.sh "$PROP" quick | grep -E "VIOLATION|OK property|CHECK-TROUBLE|KNOWN|^  C" | head -8
RC=${PIPESTATUS[0]}
git -C /repo checkout -- . 
echo "exit=$RC"
# leave bin/walsim built from the unmodified tree
/verif/scripts/setup.sh >/dev/null 2>&1
