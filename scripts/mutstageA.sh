#!/bin/bash
# Mutation sweep, stage A: which mutants compile and survive the pinned test suite?
# usage: mutstageA.sh <mutdir> <jobs> [redo-killed]   (results: <mutdir>/<id>.A = nocompile|killed|survived, <id>.fail = failing tests)
# Two tests of the pinned suite are load sensitive (segment.TestConcurrentReadersAndWriter has a 10 s wall-clock limit,
# segment.TestFrameCodecFuzz flakes ~1/40): a mutant whose only failures are those is re-run up to twice.
M=$1; J=${2:-8}; REDO=${3:-}
export GOFLAGS=-mod=mod GOPROXY=off GOSUMDB=off GOTOOLCHAIN=local
BASE=$M/../base
rm -rf $BASE; mkdir -p $BASE && git -C /repo archive HEAD | tar -x -C $BASE
one() {
  id=$1; M=$2; REDO=$3; BASE=$M/../base; W=$M/../w/$id
  if [ -f $M/$id.A ]; then
    [ "$REDO" = redo-killed ] && [ "$(cat $M/$id.A)" = killed ] && [ ! -f $M/$id.fail ] || return
  fi
  rm -rf $W; mkdir -p $W && cp -r $BASE/. $W/ && cd $W || return
  if ! patch -p1 -s < $M/$id.diff >/dev/null 2>&1; then echo nopatch > $M/$id.A; rm -rf $W; return; fi
  if ! timeout 300 go build ./... >/dev/null 2>&1 || ! timeout 300 go vet ./... >/dev/null 2>&1; then echo nocompile > $M/$id.A; rm -rf $W; return; fi
  for try in 1 2 3; do
    out=$(timeout 600 go test -vet=off -count=1 ./... 2>&1 | tr -d '\000'); rc=$?
    fails=$(echo "$out" | grep -E -- '^\s*--- FAIL|^panic:|^FAIL\s' | sort -u)
    [ $rc -eq 0 ] && [ -z "$fails" ] && break
    hard=$(echo "$out" | grep -E -- '^--- FAIL|^panic:' | grep -v -E 'TestFrameCodecFuzz|TestConcurrentReadersAndWriter')
    [ -n "$hard" ] && break
    # a package-level FAIL without any test-level failure other than the load-sensitive ones: timeout etc. -> retry
  done
  if [ -z "$fails" ]; then echo survived > $M/$id.A; rm -f $M/$id.fail; else echo killed > $M/$id.A; echo "$fails" | head -12 > $M/$id.fail; fi
  rm -rf $W
}
export -f one
ls $M/*.diff | xargs -n1 basename | sed 's/.diff//' | xargs -P $J -I{} bash -c "one {} $M $REDO"
echo "stage A: $(cat $M/*.A | sort | uniq -c | tr '\n' ' ')"
