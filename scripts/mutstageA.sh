#!/bin/bash
# Mutation sweep, stage A: which mutants compile and survive the pinned test suite?
# usage: mutstageA.sh <mutdir> <jobs>     (results: <mutdir>/<id>.A = nocompile|killed|survived)
M=$1; J=${2:-10}
export GOFLAGS=-mod=mod GOPROXY=off GOSUMDB=off GOTOOLCHAIN=local
BASE=$M/../base
rm -rf $BASE; mkdir -p $BASE && git -C /repo archive HEAD | tar -x -C $BASE
one() {
  id=$1; M=$2; BASE=$M/../base; W=$M/../w/$id
  [ -f $M/$id.A ] && return
  rm -rf $W; mkdir -p $W && cp -r $BASE/. $W/ && cd $W || return
  if ! patch -p1 -s < $M/$id.diff >/dev/null 2>&1; then echo nopatch > $M/$id.A; rm -rf $W; return; fi
  if ! timeout 300 go build ./... >/dev/null 2>&1 || ! timeout 300 go vet ./... >/dev/null 2>&1; then echo nocompile > $M/$id.A; rm -rf $W; return; fi
  out=$(timeout 600 go test -vet=off -count=1 ./... 2>&1); rc=$?
  if [ $rc -ne 0 ]; then
    # the one known flake: re-run once if it is the only failure
    if echo "$out" | grep -q -- "--- FAIL: TestFrameCodecFuzz" && [ "$(echo "$out" | grep -c -- '^--- FAIL')" = 1 ]; then
      out=$(timeout 600 go test -vet=off -count=1 ./... 2>&1); rc=$?
    fi
  fi
  if [ $rc -ne 0 ]; then echo killed > $M/$id.A; else echo survived > $M/$id.A; fi
  rm -rf $W
}
export -f one
ls $M/*.diff | xargs -n1 basename | sed 's/.diff//' | xargs -P $J -I{} bash -c "one {} $M"
echo "stage A: $(cat $M/*.A | sort | uniq -c | tr '\n' ' ')"
