#!/bin/bash
# usage: scripts/seeded_verify.sh <outdir name under /tmp/seeded_out> : confirms in a fresh scratch worktree that the
# change compiles, passes the pinned suite, and that the demonstration fails with it and passes without it.
N=$1
OUT=/tmp/seeded_out/$N
export GOFLAGS=-mod=mod GOPROXY=off GOSUMDB=off GOTOOLCHAIN=local
WT=/tmp/wt/verify-$N
git -C /repo worktree remove --force $WT 2>/dev/null
git -C /repo worktree add -q --detach $WT HEAD || exit 2
cd $WT
DEMO_PATH=$(python3 -c "import json;print(json.load(open('$OUT/meta.json'))['demo_path'])")
DEMO_CMD=$(python3 -c "import json;print(json.load(open('$OUT/meta.json'))['demo_cmd'])")
DEMO_FILE=$(ls $OUT/*.go | head -1)
mkdir -p "$(dirname $DEMO_PATH)"
echo "--- demo WITHOUT change"
cp $DEMO_FILE $DEMO_PATH
( cd $WT && timeout 600 bash -c "$DEMO_CMD" ) > /tmp/seeded_out/$N/without.log 2>&1; W=$?
tail -3 /tmp/seeded_out/$N/without.log
echo "exit without change: $W"
git apply $OUT/patch.diff || { echo "PATCH DOES NOT APPLY"; exit 3; }
echo "--- demo WITH change"
( cd $WT && timeout 600 bash -c "$DEMO_CMD" ) > /tmp/seeded_out/$N/with.log 2>&1; C=$?
tail -5 /tmp/seeded_out/$N/with.log
echo "exit with change: $C"
rm -f $DEMO_PATH; rmdir "$(dirname $DEMO_PATH)" 2>/dev/null
echo "--- suite WITH change"
timeout 900 go build ./... && timeout 900 go test -vet=off -count=1 ./... > /tmp/seeded_out/$N/suite.log 2>&1; S=$?
grep -v "no test files" /tmp/seeded_out/$N/suite.log | grep -v "^ok"
# two of the pinned tests are load-sensitive (they fail on the unchanged tree under load): re-run failing packages
for try in 1 2 3; do
  [ $S -eq 0 ] && break
  PK=$(grep -E "^FAIL\s+github.com" /tmp/seeded_out/$N/suite.log | awk '{print $2}' | sed 's#github.com/hashicorp/raft-wal#.#')
  [ -z "$PK" ] && break
  echo "--- re-running failed packages (try $try): $PK"
  timeout 900 go test -vet=off -count=1 $PK > /tmp/seeded_out/$N/suite.log 2>&1; S=$?
  grep -v "^ok" /tmp/seeded_out/$N/suite.log | tail -5
done
echo "suite exit: $S"
cd /; git -C /repo worktree remove --force $WT
echo "RESULT $N: without=$W with=$C suite=$S"
