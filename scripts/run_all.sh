#!/bin/bash
# usage: scripts/run_all.sh quick|thorough [budget_s] : runs every registered check on the unchanged tree, sequentially.
cd "$(dirname "$0")/.."
TIER=${1:-quick}
[ -n "$2" ] && export VERIF_BUDGET_S=$2
if ! git -C /repo diff --quiet; then echo "/repo has uncommitted changes: refusing to produce evidence"; exit 2; fi
for p in $(python3 -c "import json;print(' '.join(c['property_id'] for c in json.load(open('MANIFEST.json'))['checks']))"); do
  scripts/check.sh $p $TIER | grep -v "^$" | tail -4
  echo "[$p exit=${PIPESTATUS[0]}]"
done
