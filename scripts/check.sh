#!/bin/bash
# usage: scripts/check.sh <property id> <quick|thorough>
# Rebuilds walsim from /repo's current working tree (hooks on) and runs the check.
set -u
cd "$(dirname "$0")/.."
ROOT=$(pwd)
export GOFLAGS=-mod=mod GOPROXY=off GOSUMDB=off GOTOOLCHAIN=local GONOSUMDB=* GONOSUMCHECK=1 GOFLAGS=-mod=mod
PROP=$1
TIER=${2:-quick}
RACE_PROPS="C06 C14"
mkdir -p "$ROOT/bin" "$ROOT/evidence" "$ROOT/replays"
cp /repo/go.sum "$ROOT/sim/go.sum" 2>/dev/null
if ! (cd "$ROOT/sim" && go build -tags verif -o "$ROOT/bin/walsim" ./cmd/walsim) > "$ROOT/bin/build.log" 2>&1; then
  echo "CHECK-TROUBLE: build of walsim against /repo failed (exit 2, not a violation):"
  tail -30 "$ROOT/bin/build.log"
  exit 2
fi
RACEARG=""
case " $RACE_PROPS " in *" $PROP "*)
  # race stage: the same simulator built with the race detector. The harness
  # packages are compiled without instrumentation and hand over between tasks
  # through polled plain words (tag edgefree), so the detector sees only the
  # synchronisation raft-wal performs itself.
  if ! (cd "$ROOT/sim" && go build -race -tags "verif edgefree" -gcflags='verif/sim/...=-race=false' -o "$ROOT/bin/walsim-race" ./cmd/walsim) > "$ROOT/bin/build-race.log" 2>&1; then
    echo "CHECK-TROUBLE: race build of walsim against /repo failed (exit 2, not a violation):"
    tail -30 "$ROOT/bin/build-race.log"
    exit 2
  fi
  RACEARG="-racebin $ROOT/bin/walsim-race";;
esac
exec "$ROOT/bin/walsim" check -prop "$PROP" -tier "$TIER" -root "$ROOT" $RACEARG
