#!/bin/bash
# Re-runs every kept breaking change (seeded/*/patch.diff and mutants/*.diff) against its property's quick check on
# the current machinery and prints one line per change. usage: scripts/regress_mutants.sh [budget_s]
cd "$(dirname "$0")/.."
B=${1:-30}
for d in seeded/*/; do
  n=$(basename $d); p=${n:0:3}
  r=$(timeout 1200 scripts/mutant.sh $d/patch.diff $p $B 2>&1)
  if echo "$r" | grep -q "^VIOLATION"; then echo "caught  $n $p $(echo "$r" | grep -m1 '^  C' | cut -c3-110)"; else echo "MISSED  $n $p $(echo "$r" | tail -2 | tr '\n' ' ' | cut -c1-150)"; fi
done
for m in mutants/*.diff; do
  n=$(basename $m .diff); p=${n:0:3}
  case $p in C[0-2][0-9]) ;; *) echo "skip    $n (no property prefix)"; continue;; esac
  r=$(timeout 1200 scripts/mutant.sh $m $p $B 2>&1)
  if echo "$r" | grep -q "^VIOLATION"; then echo "caught  $n $p $(echo "$r" | grep -m1 '^  C' | cut -c3-110)"; else echo "MISSED  $n $p $(echo "$r" | tail -2 | tr '\n' ' ' | cut -c1-150)"; fi
done
