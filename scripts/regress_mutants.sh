#!/bin/bash
# Re-runs every kept breaking change (seeded/*/patch.diff and mutants/*.diff) against its property's quick check on
# the current machinery and prints one line per change. usage: scripts/regress_mutants.sh [budget_s]
cd "$(dirname "$0")/.."
B=${1:-30}
for d in seeded/*/; do
  n=$(basename $d); p=${n:0:3}
  r=$(timeout 1200 scripts/mutant.sh $d/patch.diff $p $B 2>&1)
  if echo "$r" | grep -q "^VIOLATION"; then echo "caught  $n $p $(echo "$r" | grep -m1 '^  C' | cut -c3-110)"; else echo "MISSED  $n $p $(echo "$r" | tail -2 | tr '\n' ' ' | cut -c1-150)"; fi
done
for m in mutants/*.diff; do
  n=$(basename $m .diff); p=${n:0:3}
  case $n in
    nosync) p=C01;; commitidx_before_sync) p=C06;; decode_nocopy|codec_hardcoded) p=C12;; no_maxentry_guard) p=C11;;
    crc_skip_header) p=C09;; verifier_hash_no_term) p=C17;; verifier_blocking_send) p=C18;; verifier_no_reset_on_truncate) p=C16;;
    fs_delete_no_syncdir|fs_create_new_flag|fs_create_no_excl|metadb_no_dirsync|fs_openwriter_bare) p=C07;;
    state_before_commit) echo "skip    $n (judged equivalent under the listed properties, DESIGN 13)"; continue;;
  esac
  case $p in C[0-2][0-9]) ;; *) echo "skip    $n (no property)"; continue;; esac
  r=$(timeout 1200 scripts/mutant.sh $m $p $B 2>&1)
  if echo "$r" | grep -q "^VIOLATION"; then echo "caught  $n $p $(echo "$r" | grep -m1 '^  C' | cut -c3-110)"; else echo "MISSED  $n $p $(echo "$r" | tail -2 | tr '\n' ' ' | cut -c1-150)"; fi
done
