#!/bin/bash
# Determinism self-test: every property's profile is run for N seeds in fresh processes at GOMAXPROCS 1, 4 and 16
# (twice at 16, in parallel with each other) and the per-seed signatures (event log + consumed tape + verdict +
# scheduler hash) are diffed. C07 is excluded: its trace runs record real thread interleavings at the syscall boundary
# (its rules are order-insensitive by construction, see DESIGN.md).
cd "$(dirname "$0")/.."
N=${1:-150}
PROPS=${2:-"C01 C02 C03 C04 C05 C06 C08 C09 C10 C11 C12 C13 C14 C16 C17 C18 C19 C20"}
scripts/setup.sh > /dev/null || exit 2
T=$(mktemp -d)
bad=0
for p in $PROPS; do
  n=$N; [ $p = C15 ] && n=20; [ $p = C08 ] && n=60
  GOMAXPROCS=1 bin/walsim sig -prop $p -seed 1000 -n $n > $T/$p.1 &
  GOMAXPROCS=4 bin/walsim sig -prop $p -seed 1000 -n $n > $T/$p.4 &
  GOMAXPROCS=16 bin/walsim sig -prop $p -seed 1000 -n $n > $T/$p.16a &
  GOMAXPROCS=16 bin/walsim sig -prop $p -seed 1000 -n $n > $T/$p.16b &
  wait
  for v in 4 16a 16b; do
    if ! cmp -s $T/$p.1 $T/$p.$v; then echo "NONDETERMINISTIC $p: GOMAXPROCS=1 vs $v"; diff $T/$p.1 $T/$p.$v | head -4; bad=1; fi
  done
  echo "$p: $(wc -l < $T/$p.1) seeds x 4 processes done"
done
# the race build (edge-free hand-off) must execute exactly the same schedules as the normal build
if [ -x bin/walsim-race ]; then
  for p in C06 C14; do
    bin/walsim sig -prop $p -seed 1000 -n 60 > $T/$p.n
    GOMAXPROCS=1 bin/walsim-race sig -prop $p -seed 1000 -n 60 > $T/$p.r 2>/dev/null
    if cmp -s $T/$p.n $T/$p.r; then echo "$p: race build = normal build on 60 seeds"; else echo "NONDETERMINISTIC $p: race build differs from normal build"; bad=1; fi
  done
fi
rm -rf $T
exit $bad
