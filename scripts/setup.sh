#!/bin/bash
# Builds the framework offline from files on disk only.
set -e
cd "$(dirname "$0")/.."
export GOFLAGS=-mod=mod GOPROXY=off GOSUMDB=off GOTOOLCHAIN=local
mkdir -p bin evidence replays
cp /repo/go.sum sim/go.sum
(cd sim && go build -tags verif -o ../bin/walsim ./cmd/walsim)
(cd sim && go build -race -tags "verif edgefree" -gcflags='verif/sim/...=-race=false' -o ../bin/walsim-race ./cmd/walsim)
echo "setup ok: $(ls -la bin/walsim)"
