#!/bin/bash
# usage: scripts/mutant.sh <patch.diff> <prop> [budget_s] [tier]
# Runs a property's check against a deliberately changed raft-wal WITHOUT touching /repo: the patch is applied to a
# scratch git worktree of /repo's HEAD, a scratch copy of sim/ is pointed at that worktree (go.mod replace), built,
# and run with the same master/worker code as scripts/check.sh. Evidence goes to a scratch directory, never to
# /verif/evidence. (Equivalent to `git -C /repo apply <patch>; scripts/check.sh ...; git -C /repo checkout -- .`,
# which scripts/mutant_inplace.sh still does, but safe to run while other checks use /repo.)
P=$(realpath "$1"); PROP=$2; B=${3:-30}; TIER=${4:-quick}
ROOT=$(cd "$(dirname "$0")/.." && pwd)
export GOFLAGS=-mod=mod GOPROXY=off GOSUMDB=off GOTOOLCHAIN=local
ID=mut-$$
WT=/tmp/wt/$ID
SIM=/tmp/$ID-sim
cleanup() { cd /; git -C /repo worktree remove --force $WT 2>/dev/null; rm -rf $SIM /tmp/$ID-evidence; git -C /repo worktree prune; }
trap cleanup EXIT
mkdir -p /tmp/wt
git -C /repo worktree add -q --detach $WT HEAD || exit 2
if ! git -C $WT apply "$P" 2>/dev/null; then echo "patch does not apply"; exit 3; fi
mkdir -p $SIM && cp -r $ROOT/sim/. $SIM/ && cp /repo/go.sum $SIM/go.sum
sed -i "s#=> /repo\$#=> $WT#" $SIM/go.mod
grep -q "=> $WT" $SIM/go.mod || { echo "could not repoint go.mod"; exit 2; }
mkdir -p $SIM/bin
if ! (cd $SIM && go build -tags verif -o $SIM/bin/walsim ./cmd/walsim) > $SIM/build.log 2>&1; then echo "BUILD FAILED"; tail -20 $SIM/build.log; exit 2; fi
RACEARG=""
if [ "$PROP" = C06 ] || [ "$PROP" = C14 ]; then
  (cd $SIM && go build -race -tags "verif edgefree" -gcflags='verif/sim/...=-race=false' -o $SIM/bin/walsim-race ./cmd/walsim) >> $SIM/build.log 2>&1 || { echo "RACE BUILD FAILED"; tail -20 $SIM/build.log; exit 2; }
  RACEARG="-racebin $SIM/bin/walsim-race"
fi
VERIF_EVIDENCE_DIR=/tmp/$ID-evidence VERIF_BUDGET_S=$B $SIM/bin/walsim check -prop "$PROP" -tier "$TIER" -root "$ROOT" $RACEARG | grep -E "VIOLATION|OK property|CHECK-TROUBLE|KNOWN|^  C" | cut -c1-400 | head -8
RC=${PIPESTATUS[0]}
echo "exit=$RC"
exit 0
