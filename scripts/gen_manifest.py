#!/usr/bin/env python3
"""Generates MANIFEST.json from the table below (kept in one place so it stays valid)."""
import json, subprocess
props = [json.loads(l) for l in open('/verif/properties.jsonl')]
ids = [p['id'] for p in props]

claimed = json.load(open('/verif/scripts/claims.json'))

hook_commits = subprocess.run(['git','-C','/repo','log','--format=%H','--grep=^verif hooks'],capture_output=True,text=True).stdout.split()

checks=[]
for pid in ids:
    c = claimed.get(pid)
    if not c or c.get('na'): continue
    checks.append({
        "property_id": pid,
        "quick_cmd": f"scripts/check.sh {pid} quick",
        "thorough_cmd": f"scripts/check.sh {pid} thorough",
        "evidence_file": f"/verif/evidence/{pid}.json",
        "replay_cmd_template": c.get("replay", "bin/walsim replay {path}"),
        "engine": "walsim",
        "level_claimed": {"category": "exploration", "text": c["text"], "design_ref": c.get("ref","DESIGN.md §5 "+pid)},
        "level_note": c["note"],
        "technique": c.get("technique","deterministic simulation with fault injection: seeded search over schedules, crash points and fault sequences against a reference model"),
    })
na=[{"property_id":pid,"reason":claimed.get(pid,{}).get("na","check not built yet in this session; see DESIGN.md §5 for the planned simulation")} for pid in ids if not claimed.get(pid) or claimed[pid].get('na')]
m={
 "version":1,
 "setup_cmd":"scripts/setup.sh",
 "hooks":{"guard":"verif","enable":"go build -tags verif (scripts/check.sh builds sim/cmd/walsim against /repo with the tag on)",
          "baseline_off_cmd":"cd /repo && GOFLAGS=-mod=mod go test -json -vet=off -count=1 -timeout 25m ./...",
          "source_commits":hook_commits,"add_only":True},
 "engines":[{"name":"walsim","path":"/verif/sim","serves_properties":[c["property_id"] for c in checks],
             "kind_free_text":"deterministic simulator: seeded scheduler over real goroutines via verifhook points, simulated disk + metadata store behind types.VFS/types.MetaStore, crash/power-loss/error/corruption injection, reference models, ddmin shrinker, replay files"}],
 "checks":checks,
 "not_applicable":na,
 "notes":"All checks rebuild bin/walsim from /repo's working tree. Exit 0 = held; 1 = VIOLATION line with replay; 2 = harness/build trouble (never a VIOLATION). Env: VERIF_SEED, VERIF_TIER, VERIF_BUDGET_S, VERIF_WORKERS."
}
json.dump(m,open('/verif/MANIFEST.json','w'),indent=1)
print("checks:",len(checks),"n/a:",len(na))
