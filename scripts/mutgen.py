#!/usr/bin/env python3
"""Mutation sweep, stage 0: enumerate first-order mutants of raft-wal's non-test sources.

Operators (token level, one change per mutant):
  ROR  relational boundary / negation:  < <-> <=, > <-> >=, == <-> !=
  AOR  drop a "+ 1" / "- 1" (also "+1"/"-1")
  SDL  delete a single-line call statement (x.Sync(), w.foo(...), atomic.Store..., delete(...))
  ESW  error swallow: "if err != nil {" -> "if false && err != nil {"
  NEG  "if cond {" -> "if !(cond) {" for conditions without err
Writes one unified diff per mutant under <outdir>/<id>.diff and an index.json.
usage: mutgen.py <repo> <outdir>
"""
import json, os, re, subprocess, sys

repo, out = sys.argv[1], sys.argv[2]
FILES = ["wal.go", "state.go", "codec.go", "options.go", "segment/writer.go", "segment/reader.go", "segment/filer.go",
         "segment/format.go", "segment/crc.go", "fs/fs.go", "fs/file.go", "metadb/metadb.go", "verifier/store.go",
         "verifier/verifier.go", "migrate/migrate.go"]
os.makedirs(out, exist_ok=True)
ROR = [(" <= ", " < "), (" < ", " <= "), (" >= ", " > "), (" > ", " >= "), (" == ", " != "), (" != ", " == ")]
index = []


def strip_strings(line):
    # blank out string literals and trailing comments so operators inside them are not touched
    res, i, n = [], 0, len(line)
    while i < n:
        c = line[i]
        if c == '"':
            j = i + 1
            while j < n and line[j] != '"':
                j += 2 if line[j] == '\\' else 1
            res.append('"' + ' ' * (j - i - 1) + '"')
            i = j + 1
        elif c == '`':
            j = line.find('`', i + 1)
            j = n - 1 if j < 0 else j
            res.append(' ' * (j - i + 1))
            i = j + 1
        elif line.startswith('//', i):
            res.append(' ' * (n - i))
            break
        else:
            res.append(c)
            i += 1
    return ''.join(res)


def emit(path, lines, ln, new, op):
    mid = "m%04d" % len(index)
    old = lines[ln]
    mutated = lines[:ln] + ([new] if new is not None else []) + lines[ln + 1:]
    tmp = os.path.join(out, "tmp.go")
    open(tmp, "w").write("".join(mutated))
    d = subprocess.run(["diff", "-u", "--label", "a/" + path, "--label", "b/" + path, os.path.join(repo, path), tmp],
                       capture_output=True, text=True).stdout
    os.remove(tmp)
    if not d:
        return
    open(os.path.join(out, mid + ".diff"), "w").write("diff --git a/%s b/%s\n" % (path, path) + d)
    index.append({"id": mid, "file": path, "line": ln + 1, "op": op, "old": old.strip(), "new": (new or "").strip()})


for path in FILES:
    full = os.path.join(repo, path)
    if not os.path.exists(full):
        continue
    lines = open(full).readlines()
    in_block_comment = False
    for ln, raw in enumerate(lines):
        s = raw.strip()
        if in_block_comment:
            if "*/" in s:
                in_block_comment = False
            continue
        if s.startswith("/*"):
            in_block_comment = "*/" not in s
            continue
        if not s or s.startswith("//") or "verifhook." in raw or s.startswith("import") or s.startswith("package"):
            continue
        code = strip_strings(raw.rstrip("\n"))
        # ROR
        for a, b in ROR:
            start = 0
            while True:
                k = code.find(a, start)
                if k < 0:
                    break
                # skip "err != nil" / "err == nil" negations handled by ESW, and ":=" / "<-" artefacts
                seg = code[max(0, k - 6):k + len(a) + 4]
                if not ("err" in seg and "nil" in seg):
                    emit(path, lines, ln, raw[:k] + b + raw[k + len(a):], "ROR")
                start = k + len(a)
        # AOR
        for m in re.finditer(r"\s?[+-]\s?1\b(?![0-9.])", code):
            if code[m.start():m.end()].strip() in ("+ 1", "- 1", "+1", "-1"):
                before = code[:m.start()].rstrip()
                if before.endswith(("(", ",", "=", "return", "[", ":", "<", ">")):
                    continue  # unary
                emit(path, lines, ln, raw[:m.start()] + raw[m.end():], "AOR")
        # SDL: a lone call statement
        if re.match(r"^[\w.\[\]()*&]+\(.*\)$", s) and not s.startswith(("defer", "go ", "return", "if", "for", "switch", "func", "panic(")) \
                and "Errorf" not in s and "log." not in s.lower() and ".Log" not in s:
            emit(path, lines, ln, None, "SDL")
        # ESW
        if re.match(r"^if err != nil \{$", s):
            emit(path, lines, ln, raw.replace("if err != nil {", "if false && err != nil {"), "ESW")
        # NEG
        m = re.match(r"^(\s*)if ([^;{]+) \{$", raw.rstrip("\n"))
        if m and "err" not in m.group(2):
            emit(path, lines, ln, "%sif !(%s) {\n" % (m.group(1), m.group(2)), "NEG")

json.dump(index, open(os.path.join(out, "index.json"), "w"), indent=1)
print(len(index), "mutants")
from collections import Counter
print(Counter(x["op"] for x in index), Counter(x["file"] for x in index))
